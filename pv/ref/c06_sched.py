"""C06 schedule control (M5).

(i)  VirtualPool: patches the names `ProcessPoolExecutor` and `as_completed`
     in photutils.segmentation.deblend with an in-process executor whose tasks
     and results take a pickle round trip (same data path as IPC) and whose
     completion order is chosen by the harness. Tasks are *executed* in the
     chosen completion order (lazy futures), so one virtual worker handles
     all tasks in an arbitrary order.
(ii) real pools: `python -m pv.ref.c06_sched SPEC.json OUT.json` runs in its
     own interpreter with /verif/hooks on PYTHONPATH (sitecustomize injects
     seeded sleeps into the spawned children and logs pid/label/time).

Also: snapshot()/diff_snapshots() for bit-for-bit comparison of two
SegmentationImage results.
"""
from __future__ import annotations

import itertools
import json
import os
import pickle
import sys
import time
from concurrent.futures import Future

import numpy as np


# ----------------------------------------------------------------------
# bit-for-bit snapshots of a deblend result
# ----------------------------------------------------------------------
def _arr(a):
    a = np.asarray(a)
    return (str(a.dtype), tuple(a.shape), np.ascontiguousarray(a).tobytes())


def snapshot(seg):
    """Everything observable of a deblend_sources result, as comparable python values."""
    if seg is None:
        return {'none': True}
    snap = {'type': type(seg).__name__}
    snap['data'] = _arr(seg.data)
    snap['labels'] = _arr(seg.labels)
    snap['deblended_labels'] = _arr(seg.deblended_labels)
    snap['deblended_labels_map'] = [(int(k), type(k).__name__, int(v), type(v).__name__)
                                    for k, v in seg.deblended_labels_map.items()]
    snap['deblended_labels_inverse_map'] = [(int(k), type(k).__name__) + _arr(v)
                                            for k, v in seg.deblended_labels_inverse_map.items()]
    info = getattr(seg, 'info', None)
    if info is None:
        snap['info'] = None
    else:
        w = info.get('warnings', {}) if isinstance(info, dict) else {}
        snap['info'] = (sorted(info) if isinstance(info, dict) else repr(type(info)),
                        [(k, v.get('message'), _arr(v.get('input_labels'))) for k, v in w.items()])
    return snap


def value_snapshot(seg):
    """Like snapshot() but by value only (ignores memory layout, byte order and integer width)."""
    def ints(a):
        a = np.asarray(a)
        return (tuple(a.shape), [int(v) for v in a.ravel().tolist()]) if a.size < 64 else \
            (tuple(a.shape), np.ascontiguousarray(a).astype(np.int64).tobytes())
    if seg is None:
        return {'none': True}
    snap = {'data': ints(seg.data), 'labels': ints(seg.labels), 'deblended_labels': ints(seg.deblended_labels),
            'deblended_labels_map': sorted((int(k), int(v)) for k, v in seg.deblended_labels_map.items()),
            'deblended_labels_inverse_map': [(int(k), ints(v)) for k, v in seg.deblended_labels_inverse_map.items()]}
    info = getattr(seg, 'info', None)
    w = info.get('warnings', {}) if isinstance(info, dict) else {}
    snap['info'] = [(k, v.get('message'), ints(v.get('input_labels'))) for k, v in w.items()]
    return snap


def diff_snapshots(a, b):
    """Names of the fields that differ (empty list = bit-identical)."""
    keys = sorted(set(a) | set(b))
    return [k for k in keys if a.get(k, '<missing>') != b.get(k, '<missing>')]


# ----------------------------------------------------------------------
# (i) virtual pool
# ----------------------------------------------------------------------
class VirtualPool:
    """Context manager patching deblend.ProcessPoolExecutor / deblend.as_completed.

    order: None (submission order), or a sequence that is a permutation of
    range(n_tasks); if its length does not match the number of submitted tasks
    a harness error is raised (never a verdict).
    """

    def __init__(self, order=None, lazy_pickle=False):
        self.order = None if order is None else list(order)
        # lazy_pickle: a task's arguments are pickled when the task starts, i.e. after the parent has
        # consumed every future that completes earlier (a real executor feeds its call queue
        # progressively, so late tasks are pickled while the parent is already handling results)
        self.lazy_pickle = bool(lazy_pickle)
        self.n_tasks = None
        self.applied = None
        self.executor_kwargs = None
        self.n_pools = 0
        self.bytes_in = 0
        self.bytes_out = 0

    # -- the two replacement callables ---------------------------------
    def _make_executor_class(ctrl):
        class VirtualExecutor:
            def __init__(self, *args, **kwargs):
                ctrl.executor_kwargs = {k: (type(v).__name__ if k == 'mp_context' else v)
                                        for k, v in kwargs.items()}
                ctrl.executor_args = len(args)
                ctrl.n_pools += 1
                self._tasks = []          # (future, pickled call)
                ctrl._live = self
                self._shutdown = False

            def __enter__(self):
                return self

            def __exit__(self, *exc):
                self.shutdown(wait=True)
                return False

            def submit(self, fn, /, *args, **kwargs):
                if self._shutdown:
                    raise RuntimeError('cannot schedule new futures after shutdown')
                if ctrl.lazy_pickle:
                    blob = (fn, args, kwargs)
                else:
                    blob = pickle.dumps((fn, args, kwargs), protocol=pickle.HIGHEST_PROTOCOL)
                    ctrl.bytes_in += len(blob)
                fut = Future()
                fut._pv_index = len(self._tasks)
                self._tasks.append((fut, blob))
                return fut

            def _run(self, i):
                fut, blob = self._tasks[i]
                if fut.done():
                    return fut
                fut.set_running_or_notify_cancel()
                if not isinstance(blob, bytes):
                    blob = pickle.dumps(blob, protocol=pickle.HIGHEST_PROTOCOL)
                    ctrl.bytes_in += len(blob)
                fn, args, kwargs = pickle.loads(blob)
                try:
                    res = fn(*args, **kwargs)
                    out = pickle.dumps(res, protocol=pickle.HIGHEST_PROTOCOL)
                    ctrl.bytes_out += len(out)
                    fut.set_result(pickle.loads(out))
                except Exception as exc:  # noqa: BLE001  (delivered through the future, like a real pool)
                    fut.set_exception(exc)
                return fut

            def map(self, fn, *iterables, timeout=None, chunksize=1):
                # not used by the pinned code; kept so that a variant using Executor.map still runs
                # through the chosen completion order instead of failing inside the harness
                futs = [self.submit(fn, *args) for args in zip(*iterables)]
                n = len(futs)
                order = ctrl.order if ctrl.order is not None and sorted(ctrl.order) == list(range(n)) \
                    else list(range(n))
                ctrl.n_tasks, ctrl.applied = n, list(order)
                for k in order:
                    self._run(futs[k]._pv_index)
                return (f.result() for f in futs)

            def shutdown(self, wait=True, *, cancel_futures=False):
                if not self._shutdown:
                    for i in range(len(self._tasks)):
                        self._run(i)
                    self._shutdown = True

        return VirtualExecutor

    def _as_completed(self, fs, timeout=None):
        fs = list(fs)
        ex = self._live
        n = len(fs)
        self.n_tasks = n
        idx = [f._pv_index for f in fs]
        order = list(range(n)) if self.order is None else self.order
        if sorted(order) != list(range(n)):
            raise RuntimeError(f'pv harness: schedule {order} is not a permutation of {n} tasks')
        self.applied = list(order)
        for k in order:
            yield ex._run(idx[k])

    def __enter__(self):
        import photutils.segmentation.deblend as d
        self._mod = d
        self._saved = (d.ProcessPoolExecutor, d.as_completed)
        d.ProcessPoolExecutor = VirtualPool._make_executor_class(self)
        d.as_completed = self._as_completed
        return self

    def __exit__(self, *exc):
        self._mod.ProcessPoolExecutor, self._mod.as_completed = self._saved
        return False


def orders_for(n, rng, n_random=4, full_upto=4):
    """Completion orders to apply for n tasks: all n! for n <= full_upto, else identity,
    reverse, a rotation and seeded random permutations. Identity always first."""
    if n <= 1:
        return [list(range(n))]
    if n <= full_upto:
        return [list(p) for p in itertools.permutations(range(n))]
    out = [list(range(n)), list(range(n - 1, -1, -1)), list(range(1, n)) + [0]]
    seen = {tuple(o) for o in out}
    for _ in range(n_random):
        p = [int(v) for v in rng.permutation(n)]
        if tuple(p) not in seen:
            seen.add(tuple(p))
            out.append(p)
    return out


def selftest():
    """The virtual pool against facts independent of photutils: futures resolve in the chosen
    order, results take a pickle round trip, exceptions come through the future."""
    ctrl = VirtualPool(order=[2, 0, 1])
    Ex = VirtualPool._make_executor_class(ctrl)
    ran = []

    with Ex(mp_context=None, max_workers=3) as ex:
        futs = {ex.submit(_selftest_task, i, ran_marker=i): i for i in range(3)}
        got = []
        for f in ctrl._as_completed(futs):
            got.append(futs[f])
            ran.append(f.result()[0])
    assert got == [2, 0, 1], got
    assert ran == [2, 0, 1], ran
    assert ctrl.n_tasks == 3 and ctrl.applied == [2, 0, 1]
    # the result is a copy (pickle round trip), not the object made by the task
    ctrl = VirtualPool(order=None)
    Ex = VirtualPool._make_executor_class(ctrl)
    with Ex(max_workers=2) as ex:
        f = ex.submit(_selftest_task, 5)
        f2 = ex.submit(_selftest_fail)
    assert f.done() and f.result()[1].tolist() == [5, 5] and f.result()[1] is not _LAST[0]
    try:
        f2.result()
        raise AssertionError('exception not delivered')
    except ZeroDivisionError:
        pass
    assert len(orders_for(4, np.random.default_rng(0))) == 24
    assert len(orders_for(3, np.random.default_rng(0))) == 6
    o = orders_for(9, np.random.default_rng(0))
    assert o[0] == list(range(9)) and o[1] == list(range(8, -1, -1)) and len(o) >= 5
    assert all(sorted(p) == list(range(9)) for p in o)


_LAST = [None]


def _selftest_task(i, ran_marker=None):
    a = np.array([i, i])
    _LAST[0] = a
    return i, a


def _selftest_fail():
    return 1 // 0


# ----------------------------------------------------------------------
# (ii) real pool: subprocess entry point
# ----------------------------------------------------------------------
def real_pool_main(spec_path, out_path):
    """Runs in its own interpreter. Rebuilds the scene from (seed, shard, idx), computes the
    nproc=1 result, then the real spawn-pool result(s), compares bit for bit and records the
    order in which the parent consumed the futures."""
    import warnings
    warnings.simplefilter('ignore')
    with open(spec_path) as f:
        spec = json.load(f)
    from pv import core
    from pv.checks import c06
    import photutils.segmentation.deblend as d
    from photutils.segmentation import deblend_sources

    rng = core.case_rng(spec['pid'], spec['seed'], spec['shard'], spec['idx'])
    # redraw (deterministically, same rng stream) until the scene has >= 4 tasks and >= 1 split parent
    built = ref = None
    res = {'built': False, 'runs': [], 'attempts': 0}
    for attempt in range(8):
        res['attempts'] = attempt + 1
        cand = c06.build_inputs(rng, spec['cls'])
        if cand is None:
            continue
        t0 = time.time()
        cref = deblend_sources(cand['data'], cand['seg'], labels=cand['labels_arg'], connectivity=cand['conn'],
                               nproc=1, progress_bar=False, **cand['kw'])
        res['serial_s'] = time.time() - t0
        built, ref = cand, cref
        if cand['n_eligible'] >= 4 and len(cref.deblended_labels_inverse_map) >= 1:
            break
    res['built'] = built is not None
    if built is None:
        with open(out_path, 'w') as f:
            json.dump(res, f)
        return 0
    data, seg, kw, labels_arg = built['data'], built['seg'], built['kw'], built['labels_arg']
    res['n_labels'] = int(seg.nlabels)
    seg_bytes = seg.data.tobytes()
    ref_snap = snapshot(ref)
    res['ref_nlabels'] = int(ref.nlabels)
    res['ref_nsplit'] = len(ref.deblended_labels_inverse_map)

    real_as_completed = d.as_completed

    def pool_run(nproc, kw_, ref_snap_, call):
        consumed = []
        holder = {}

        def recording_as_completed(fs, timeout=None, _c=consumed, _h=holder):
            _h['fs'] = fs
            for fut in real_as_completed(fs, timeout=timeout):
                _c.append(int(fs[fut]) if isinstance(fs, dict) else -1)
                yield fut

        d.as_completed = recording_as_completed
        t0 = time.time()
        run = {'nproc': nproc, 'call': call, 'mode': kw_['mode']}
        try:
            out = deblend_sources(data, seg, labels=labels_arg, connectivity=built['conn'],
                                  nproc=nproc, progress_bar=False, **kw_)
            run['diff'] = diff_snapshots(ref_snap_, snapshot(out))
            run['raised'] = None
        except Exception as exc:  # noqa: BLE001  reported to the driver, which makes it a verdict
            run['diff'] = None
            run['raised'] = core.exc_mech(exc)
            run['raised']['msg'] = str(exc)[:300]
        finally:
            d.as_completed = real_as_completed
        run['wall_s'] = time.time() - t0
        run['consumed'] = consumed
        run['n_tasks'] = len(holder.get('fs', ()))
        run['input_unchanged'] = seg.data.tobytes() == seg_bytes
        res['runs'].append(run)

    # call A: the drawn arguments, every requested nproc
    for nproc in spec['nprocs']:
        pool_run(nproc, kw, ref_snap, 'A')
    # call B in the same process (and a second generation of spawned children): another mode; then A again
    others = [m for m in ('exponential', 'linear', 'sinh') if m != kw['mode']]
    kwB = dict(kw, mode=others[int(spec['idx']) % 2])
    refB = deblend_sources(data, seg, labels=labels_arg, connectivity=built['conn'], nproc=1,
                           progress_bar=False, **kwB)
    pool_run(spec['nprocs'][0], kwB, snapshot(refB), 'B')
    again = deblend_sources(data, seg, labels=labels_arg, connectivity=built['conn'], nproc=1,
                            progress_bar=False, **kw)
    res['serial_again_diff'] = diff_snapshots(ref_snap, snapshot(again))
    with open(out_path, 'w') as f:
        json.dump(res, f)
    return 0


if __name__ == '__main__':
    sys.exit(real_pool_main(sys.argv[1], sys.argv[2]))
