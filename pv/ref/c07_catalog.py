"""Reference model for SourceCatalog (C07): every quantity recomputed per label from its
documented definition, directly on the pixels carrying the label that are unmasked and finite.

Independent of photutils: numpy + math.fsum only. Written for clarity, not speed.

Conventions (from the SourceCatalog docstrings):
  P     = {seg == L}                      pixels carrying the label (raster order)
  good  = P & ~mask & isfinite(data)      "unmasked pixels in the source segment"
  W     = moment weights: convolved data (data if none given) with pixels outside P, masked pixels,
          non-finite convolved values and negative convolved values set to zero
"""
from __future__ import annotations

import math

import numpy as np

DELTA = 1.0 / 12.0
DELTA2 = DELTA ** 2


def fsum(x):
    x = np.asarray(x, dtype=float).ravel()
    if x.size == 0:
        return float('nan')
    if not np.all(np.isfinite(x)):
        with np.errstate(all='ignore'):
            return float(np.sum(x))
    return math.fsum(x.tolist())


class Inputs:
    """Plain arrays of one catalogue (no units)."""

    def __init__(self, data, seg, conv=None, error=None, mask=None, background=None):
        self.data = np.asarray(data)
        self.seg = np.asarray(seg)
        self.conv = None if conv is None else np.asarray(conv)
        self.error = None if error is None else np.asarray(error)
        self.mask = None if mask is None else np.asarray(mask, dtype=bool)
        self.background = None if background is None else np.asarray(background)


def footprint(inp, label):
    """(ys, xs) of P in raster order, bbox (ymin, ymax, xmin, xmax inclusive), good flags along P."""
    ys, xs = np.nonzero(inp.seg == label)
    bbox = (int(ys.min()), int(ys.max()), int(xs.min()), int(xs.max()))
    d = inp.data[ys, xs].astype(float)
    good = np.isfinite(d)
    if inp.mask is not None:
        good &= ~inp.mask[ys, xs]
    return ys, xs, bbox, good


def moment_weights(inp, label, exclude_data_nonfinite=False):
    """Weight image W restricted to P: returns (ys, xs, w) with w >= 0 (zeros kept)."""
    ys, xs = np.nonzero(inp.seg == label)
    src = inp.data if inp.conv is None else inp.conv
    w = src[ys, xs].astype(float)
    zero = ~np.isfinite(w)
    with np.errstate(invalid='ignore'):
        zero |= w < 0
    if inp.mask is not None:
        zero |= inp.mask[ys, xs]
    if exclude_data_nonfinite:
        zero |= ~np.isfinite(inp.data[ys, xs].astype(float))
    w = np.where(zero, 0.0, w)
    return ys, xs, w


def raw_moments(ys, xs, w, y0, x0, order=3):
    """M[i, j] = sum w (y-y0)^i (x-x0)^j, i, j = 0..order (cutout coordinates when y0, x0 = bbox origin)."""
    M = np.zeros((order + 1, order + 1))
    yy = (ys - y0).astype(float)
    xx = (xs - x0).astype(float)
    for i in range(order + 1):
        for j in range(order + 1):
            M[i, j] = fsum(w * yy ** i * xx ** j) if len(w) else 0.0
    return M


def central_moments(ys, xs, w, yc, xc, order=3):
    M = np.zeros((order + 1, order + 1))
    if not (np.isfinite(yc) and np.isfinite(xc)):
        M[:] = np.nan
        return M
    dy = ys.astype(float) - yc
    dx = xs.astype(float) - xc
    for i in range(order + 1):
        for j in range(order + 1):
            M[i, j] = fsum(w * dy ** i * dx ** j)
    return M


def regularise(a, b, c, tie_eps=1e-9):
    """SourceExtractor prescription used for 'infinitely thin' detections: while det < (1/12)^2 add 1/12
    to both variances.  Returns (a, b, c, nsteps, status) with status in
      'regular'      det clearly above the threshold, nothing added
      'regularised'  threshold clearly crossed after nsteps additions
      'tie'          some det evaluation was within tie_eps of the threshold (either side is acceptable)
      'degenerate'   raw det is 0 up to rounding (library may see a negative determinant -> NaN row)
      'point'        a = b = c = 0 exactly (all weight in one pixel): one exact step to a = c = 1/12
      'nan'          inputs not finite
    """
    if not (np.isfinite(a) and np.isfinite(b) and np.isfinite(c)):
        return np.nan, np.nan, np.nan, 0, 'nan'
    if a == 0.0 and b == 0.0 and c == 0.0:
        return DELTA, 0.0, DELTA, 1, 'point'
    det = a * c - b * b
    status = 'regular'
    if abs(det) <= 1e-12 * max(1.0, (a + c) ** 2):
        status = 'degenerate'
    n = 0
    while True:
        if abs(det - DELTA2) <= tie_eps * max(1.0, a + c) and status != 'degenerate':
            status = 'tie'
        if det >= DELTA2 or n > 50:
            break
        a += DELTA
        c += DELTA
        n += 1
        det = a * c - b * b
        if status == 'regular':
            status = 'regularised'
    return a, b, c, n, status


def shape_from_cov(a, b, c):
    """a = var(x), b = cov(x, y), c = var(y) -> dict of the ellipse parameters by their closed forms."""
    out = {}
    if not (np.isfinite(a) and np.isfinite(b) and np.isfinite(c)):
        for k in ('lam1', 'lam2', 'theta_deg', 'hyp', 'cxx', 'cyy', 'cxy', 'det'):
            out[k] = np.nan
        return out
    half = 0.5 * (a + c)
    hyp = math.hypot(0.5 * (a - c), b)
    lam1, lam2 = half + hyp, half - hyp
    if lam2 < 0 and lam2 > -1e-14 * max(1.0, half):
        lam2 = 0.0
    det = a * c - b * b
    out['lam1'], out['lam2'] = lam1, lam2
    out['hyp'] = 2.0 * hyp                       # = hypot(a - c, 2b)
    out['theta_deg'] = math.degrees(0.5 * math.atan2(2.0 * b, a - c))
    out['det'] = det
    if det > 0:
        out['cxx'], out['cyy'], out['cxy'] = c / det, a / det, -2.0 * b / det
    else:
        out['cxx'] = out['cyy'] = out['cxy'] = np.nan
    return out


def bilinear(img, y, x):
    """Bilinear interpolation of img at (row=y, col=x); coordinates clamped to the image ('nearest')."""
    ny, nx = img.shape
    if not (np.isfinite(y) and np.isfinite(x)):
        return float('nan'), True
    y = min(max(y, 0.0), ny - 1.0)
    x = min(max(x, 0.0), nx - 1.0)
    y0, x0 = int(math.floor(y)), int(math.floor(x))
    y1, x1 = min(y0 + 1, ny - 1), min(x0 + 1, nx - 1)
    fy, fx = y - y0, x - x0
    v = [float(img[y0, x0]), float(img[y0, x1]), float(img[y1, x0]), float(img[y1, x1])]
    finite = all(math.isfinite(t) for t in v)
    if not finite:
        return float('nan'), False
    val = (v[0] * (1 - fy) * (1 - fx) + v[1] * (1 - fy) * fx + v[2] * fy * (1 - fx) + v[3] * fy * fx)
    return val, True


def photometry_reference(inp, label, localbkg=0.0):
    """Flux-like quantities (never delegated to a detection catalogue)."""
    ys, xs, bbox, good = footprint(inp, label)
    gy, gx = ys[good], xs[good]
    n = int(good.sum())
    r = {'bbox': bbox, 'npix': int(len(ys)), 'ngood': n, 'good_yx': (gy, gx), 'all_yx': (ys, xs)}
    nan = float('nan')
    vals = inp.data[gy, gx].astype(float)
    r['sum_abs'] = fsum(np.abs(vals)) if n else 0.0
    if n:
        raw = fsum(vals)
        r['segment_flux'] = raw - n * localbkg
        r['flux_scale'] = r['sum_abs'] + abs(n * localbkg) if np.isfinite(localbkg) else r['sum_abs']
        kmin, kmax = int(np.argmin(vals)), int(np.argmax(vals))   # first occurrence in raster order
        r['min_value'] = float(vals[kmin]) - localbkg
        r['max_value'] = float(vals[kmax]) - localbkg
        r['minval_index'] = (int(gy[kmin]), int(gx[kmin]))
        r['maxval_index'] = (int(gy[kmax]), int(gx[kmax]))
    else:
        r['segment_flux'] = r['min_value'] = r['max_value'] = nan
        r['flux_scale'] = 0.0
        r['minval_index'] = r['maxval_index'] = (nan, nan)
    if inp.error is None:
        r['segment_fluxerr'] = nan
        r['err_scale'] = 0.0
    elif n:
        e = inp.error[gy, gx].astype(float)
        with np.errstate(all='ignore'):
            s = fsum(e * e)
        r['segment_fluxerr'] = math.sqrt(s) if s >= 0 and math.isfinite(s) else (s if s != s or s > 0 else nan)
        r['err_scale'] = abs(r['segment_fluxerr']) if math.isfinite(r['segment_fluxerr']) else 0.0
    else:
        r['segment_fluxerr'] = nan
        r['err_scale'] = 0.0
    if inp.background is None:
        r['background_sum'] = r['background_mean'] = nan
        r['bkg_scale'] = 0.0
    elif n:
        b = inp.background[gy, gx].astype(float)
        r['background_sum'] = fsum(b)
        r['background_mean'] = r['background_sum'] / n
        with np.errstate(all='ignore'):
            r['bkg_scale'] = float(np.sum(np.abs(b))) if np.all(np.isfinite(b)) else 0.0
    else:
        r['background_sum'] = r['background_mean'] = nan
        r['bkg_scale'] = 0.0
    return r


def morphology_reference(inp, label, exclude_data_nonfinite=False):
    """Moment-based quantities (delegated to the detection catalogue when one is given)."""
    ys, xs, bbox, good = footprint(inp, label)
    ymin, ymax, xmin, xmax = bbox
    n = int(good.sum())
    r = {'bbox': bbox, 'segment_area': float(len(ys)), 'area': float(n) if n else float('nan'),
         'ngood': n}
    _, _, w = moment_weights(inp, label, exclude_data_nonfinite)
    H, Wd = ymax - ymin + 1, xmax - xmin + 1
    r['extent'] = (H, Wd)
    M = raw_moments(ys, xs, w, ymin, xmin)
    r['moments'] = M
    m00 = M[0, 0]
    r['m00'] = m00
    if m00 > 0:
        cyc, cxc = M[1, 0] / m00, M[0, 1] / m00
    else:
        cyc = cxc = float('nan')
    r['cutout_centroid'] = (cxc, cyc)
    r['centroid'] = (cxc + xmin, cyc + ymin)
    mu = central_moments(ys, xs, w, cyc + ymin, cxc + xmin)
    r['moments_central'] = mu
    if m00 > 0:
        a0, b0, c0 = mu[0, 2] / m00, mu[1, 1] / m00, mu[2, 0] / m00
    else:
        a0 = b0 = c0 = float('nan')
    r['cov_raw'] = (a0, b0, c0)
    a, b, c, nsteps, status = regularise(a0, b0, c0)
    r['cov'] = (a, b, c)
    r['cov_status'] = status
    r['cov_steps'] = nsteps
    r.update(shape_from_cov(a, b, c))
    return r


def sums_depend_only_on(inp, label):
    """Pixels whose values may influence the isophotal row of `label`: exactly P."""
    return inp.seg == label


# ----------------------------------------------------------------------
# self-test: facts that do not depend on photutils
# ----------------------------------------------------------------------
def selftest():
    # 1. hand case: 3x3 label inside a 5x6 image, one masked pixel, one NaN pixel
    seg = np.zeros((5, 6), int)
    seg[1:4, 2:5] = 7
    data = np.arange(30, dtype=float).reshape(5, 6)
    data[2, 3] = np.nan
    mask = np.zeros((5, 6), bool)
    mask[1, 2] = True
    err = np.full((5, 6), 2.0)
    bkg = np.add.outer(np.arange(5) * 10.0, np.arange(6) * 1.0)
    inp = Inputs(data, seg, error=err, mask=mask, background=bkg)
    p = photometry_reference(inp, 7)
    vals = [9, 10, 14, 16, 20, 21, 22]             # 8 masked, 15 NaN
    assert p['ngood'] == 7 and p['npix'] == 9
    assert p['segment_flux'] == float(sum(vals))
    assert p['segment_fluxerr'] == math.sqrt(7 * 4.0)
    assert p['min_value'] == 9.0 and p['minval_index'] == (1, 3)
    assert p['max_value'] == 22.0 and p['maxval_index'] == (3, 4)
    assert p['bbox'] == (1, 3, 2, 4)
    bvals = [13, 14, 22, 24, 32, 33, 34]
    assert p['background_sum'] == float(sum(bvals))
    assert abs(p['background_mean'] - sum(bvals) / 7.0) < 1e-13
    m = morphology_reference(inp, 7)
    sx = sum(v * x for v, x in zip(vals, [3, 4, 2, 4, 2, 3, 4]))
    sy = sum(v * y for v, y in zip(vals, [1, 1, 2, 2, 3, 3, 3]))
    assert abs(m['centroid'][0] - sx / sum(vals)) < 1e-13
    assert abs(m['centroid'][1] - sy / sum(vals)) < 1e-13
    assert m['area'] == 7.0 and m['segment_area'] == 9.0
    # ties: first occurrence in raster order
    d2 = np.ones((4, 4))
    s2 = np.zeros((4, 4), int)
    s2[1:3, 1:3] = 1
    p2 = photometry_reference(Inputs(d2, s2), 1)
    assert p2['minval_index'] == (1, 1) and p2['maxval_index'] == (1, 1)
    # 2. analytic: uniform a x b rectangle -> variances (a^2-1)/12, (b^2-1)/12, orientation 0 (wide) / 90 (tall)
    s3 = np.zeros((12, 20), int)
    s3[3:8, 4:15] = 2                               # 5 rows x 11 columns
    m3 = morphology_reference(Inputs(np.ones((12, 20)), s3), 2)
    a, b, c = m3['cov']
    assert abs(a - (11 ** 2 - 1) / 12.0) < 1e-12 and abs(c - (5 ** 2 - 1) / 12.0) < 1e-12 and abs(b) < 1e-13
    assert abs(m3['centroid'][0] - 9.0) < 1e-13 and abs(m3['centroid'][1] - 5.0) < 1e-13
    assert abs(m3['theta_deg']) < 1e-12
    assert abs(m3['lam1'] - 10.0) < 1e-12 and abs(m3['lam2'] - 2.0) < 1e-12
    assert abs(m3['cxx'] - 0.1) < 1e-13 and abs(m3['cyy'] - 0.5) < 1e-13 and abs(m3['cxy']) < 1e-13
    # rotated-by-45-degrees weights: two pixels on the diagonal -> orientation 45, thin -> regularised
    s4 = np.zeros((6, 6), int)
    s4[2, 2] = s4[3, 3] = 1
    m4 = morphology_reference(Inputs(np.ones((6, 6)), s4), 1)
    assert m4['cov_status'] in ('regularised', 'degenerate')
    assert abs(m4['theta_deg'] - 45.0) < 1e-12
    a, b, c = m4['cov']
    assert abs(a - (0.25 + DELTA)) < 1e-15 and abs(b - 0.25) < 1e-15
    # single pixel -> exactly 1/12 variances
    s5 = np.zeros((3, 3), int)
    s5[1, 1] = 4
    m5 = morphology_reference(Inputs(np.full((3, 3), 3.0), s5), 4)
    assert m5['cov'] == (DELTA, 0.0, DELTA) and m5['cov_status'] == 'point'
    # 3. bilinear: exact on a plane, row/col convention
    yy, xx = np.indices((7, 9))
    plane = 3.0 + 2.0 * xx - 5.0 * yy
    v, ok = bilinear(plane, 2.25, 6.5)
    assert ok and abs(v - (3.0 + 2.0 * 6.5 - 5.0 * 2.25)) < 1e-12
    v, ok = bilinear(plane, 6.0, 8.0)
    assert ok and v == plane[6, 8]
    # 4. negative and non-finite convolved values carry zero weight; fully masked -> NaN
    d6 = np.array([[1.0, -5.0, np.inf], [2.0, 3.0, np.nan]])
    s6 = np.ones((2, 3), int)
    m6 = morphology_reference(Inputs(np.ones((2, 3)), s6, conv=d6), 1)
    assert m6['m00'] == 6.0
    assert abs(m6['centroid'][0] - (0 * 1 + 0 * 2 + 1 * 3) / 6.0) < 1e-15
    m7 = morphology_reference(Inputs(np.ones((2, 3)), s6, mask=np.ones((2, 3), bool)), 1)
    assert m7['m00'] == 0.0 and math.isnan(m7['centroid'][0]) and math.isnan(m7['area'])
    p7 = photometry_reference(Inputs(np.ones((2, 3)), s6, mask=np.ones((2, 3), bool)), 1)
    assert math.isnan(p7['segment_flux']) and math.isnan(p7['min_value'])
