"""C18 reference: a rendered model image as the explicit superposition of its rows.

The reference never imports photutils.datasets.make_model_image (nor anything of
photutils.psf.photometry / simulation).  Trusted base: numpy, astropy.modeling
(model.copy, parameter assignment, model evaluation, bounding_box),
astropy.nddata.utils.overlap_slices(mode='trim'), and
astropy.convolution.discretize_model for mode='integrate' only ('interp' and
'oversample' are re-implemented here).

A *row* is a dict
    {'params': {model_param_name: value (float or Quantity)},   # parameters to assign
     'model_shape': None | (ny, nx),                            # window; None -> bounding box rule
     'local_bkg': float | Quantity}                             # per-pixel background over the window
"""
from __future__ import annotations

import numpy as np
from astropy.nddata.utils import NoOverlapError, overlap_slices


def window(shape, mod_shape, y0, x0):
    """Window of a (ny, nx) box centred on (y0, x0) clipped to the image.
    Returns (slice_y, slice_x) or None when the box does not overlap the image."""
    try:
        slc, _ = overlap_slices(shape, tuple(int(v) for v in mod_shape), (y0, x0), mode='trim')
    except NoOverlapError:
        return None
    for s in slc:
        if s.stop - s.start <= 0:
            return None
    return slc


def shape_from_bbox(model, bbox_factor=None):
    """(ny, nx) = ceil of the extents of the model's bounding box (the rule the
    documentation gives for model_shape=None: 'the bounding box of the model will be used')."""
    foot = image_model_footprint(model)
    if foot is not None:
        return int(np.ceil(foot[0])), int(np.ceil(foot[1]))
    bbox = None
    if bbox_factor is not None:
        try:
            bbox = model.bounding_box(factor=bbox_factor)
        except NotImplementedError:
            bbox = None
    if bbox is None:
        bbox = model.bounding_box.bounding_box()
    (ylo, yhi), (xlo, xhi) = bbox
    return int(np.ceil(yhi - ylo)), int(np.ceil(xhi - xlo))


def image_model_footprint(model):
    """(extent_y, extent_x) in image pixels of an image-based PSF model (ImagePSF, GriddedPSFModel), derived by the
    harness from the documented meaning of the arrays: the ePSF image of (ny, nx) oversampled pixels with integer
    oversampling factors in (y, x) order covers ny/oversampling_y by nx/oversampling_x image pixels around the
    centre.  Independent of the model's own bounding_box code.  None for other models."""
    data = getattr(model, 'data', None)
    ovs = getattr(model, 'oversampling', None)
    if not isinstance(data, np.ndarray) or ovs is None or data.ndim not in (2, 3):
        return None
    ovs = np.atleast_1d(np.asarray(ovs, dtype=float))
    oy, ox = (ovs[0], ovs[0]) if ovs.size == 1 else (ovs[0], ovs[1])
    ny, nx = data.shape[-2:]
    return ny / oy, nx / ox


def _split(v):
    if hasattr(v, 'unit') and hasattr(v, 'value'):
        return np.asarray(v.value, dtype=float), v.unit
    return np.asarray(v, dtype=float), None


def evaluate(model, slc, method, oversample, with_scale=False):
    """Model discretised on the integer pixel grid of the window `slc`.
    with_scale=True: also return the mean of |model| over the points that were averaged into each pixel
    (the honest magnitude for rounding when the model changes sign inside a pixel)."""
    out = _evaluate(model, slc, method, oversample)
    if with_scale:
        return out
    return out[0]


def _evaluate(model, slc, method, oversample):
    ys = np.arange(slc[0].start, slc[0].stop)
    xs = np.arange(slc[1].start, slc[1].stop)
    if method == 'center':
        xx, yy = np.meshgrid(xs, ys)
        v = model(xx, yy)
        return v, np.abs(_split(v)[0])
    if method == 'interp':
        # value of a pixel = mean of the model at its four corners
        xc = np.arange(xs[0] - 0.5, xs[-1] + 1.0, 1.0)
        yc = np.arange(ys[0] - 0.5, ys[-1] + 1.0, 1.0)
        xx, yy = np.meshgrid(xc, yc)
        v = model(xx, yy)
        a = np.abs(_split(v)[0])
        return ((v[:-1, :-1] + v[1:, :-1] + v[:-1, 1:] + v[1:, 1:]) / 4.0,
                (a[:-1, :-1] + a[1:, :-1] + a[:-1, 1:] + a[1:, 1:]) / 4.0)
    if method == 'oversample':
        f = int(oversample)
        # sub-sample centres (k + 0.5)/f - 0.5 inside each pixel.  The coordinates are generated with the
        # same expression as the trusted astropy.convolution code (np.linspace over the whole window) so that
        # a sub-sample falling exactly on a discontinuity of the model (edge of an ImagePSF's domain) is
        # rounded to the same side; the averaging is the harness's own.
        xsub = np.linspace(slc[1].start - 0.5 * (1 - 1 / f), slc[1].stop - 0.5 * (1 + 1 / f), num=xs.size * f)
        ysub = np.linspace(slc[0].start - 0.5 * (1 - 1 / f), slc[0].stop - 0.5 * (1 + 1 / f), num=ys.size * f)
        off = (np.arange(f) + 0.5) / f - 0.5
        assert np.allclose(xsub, (xs[:, None] + off[None, :]).ravel(), rtol=0, atol=1e-9)
        assert np.allclose(ysub, (ys[:, None] + off[None, :]).ravel(), rtol=0, atol=1e-9)
        xx, yy = np.meshgrid(xsub, ysub)
        v = model(xx, yy)
        val, unit = _split(v)
        sc = np.abs(val).reshape(ys.size, f, xs.size, f).sum(axis=(1, 3)) / float(f * f)
        val = val.reshape(ys.size, f, xs.size, f).sum(axis=(1, 3)) / float(f * f)
        return (val if unit is None else val * unit), sc
    if method == 'integrate':
        from astropy.convolution import discretize_model
        v = discretize_model(model, x_range=(slc[1].start, slc[1].stop),
                             y_range=(slc[0].start, slc[0].stop), mode='integrate')
        return v, np.abs(_split(v)[0])
    raise ValueError(method)


def render(shape, model, rows, x_name, y_name, method='center', oversample=10,
           bbox_factor=None):
    """Explicit superposition.  Returns dict with
    values (float image), unit (None or astropy unit), scale (sum of |contribution| per pixel,
    the honest scale for summation-order rounding), overlap (bool per row), windows."""
    values = np.zeros(shape, dtype=float)
    scale = np.zeros(shape, dtype=float)
    unit = None
    overlap, windows = [], []
    for row in rows:
        m = model.copy()
        for name, val in row['params'].items():
            setattr(m, name, val)
        x0 = float(getattr(m, x_name).value)
        y0 = float(getattr(m, y_name).value)
        mshape = row.get('model_shape')
        if mshape is None:
            mshape = shape_from_bbox(m, bbox_factor)
        slc = window(shape, mshape, y0, x0)
        windows.append(slc)
        overlap.append(slc is not None)
        if slc is None:
            continue
        sub, subscale = evaluate(m, slc, method, oversample, with_scale=True)
        sub, sunit = _split(sub)
        bkg = row.get('local_bkg', 0.0)
        if hasattr(bkg, 'unit') and hasattr(bkg, 'value'):
            if sunit is None:
                raise ValueError('unit-ful local_bkg with a unit-less model: outside the contract')
            bkgv = float(bkg.to_value(sunit))
        else:
            bkgv = float(bkg)
            if sunit is not None and bkgv != 0.0:
                raise ValueError('unit-less local_bkg with a unit-ful model: outside the contract')
        if unit is None:
            unit = sunit
        elif sunit is not None and sunit != unit:
            subscale = subscale * float((1.0 * sunit).to_value(unit))
            sub = (sub * sunit).to_value(unit)
        values[slc] += sub + bkgv
        scale[slc] += subscale + abs(bkgv)
    return dict(values=values, unit=unit, scale=scale, overlap=np.array(overlap, dtype=bool),
                windows=windows)


# ----------------------------------------------------------------------
def selftest():
    """Facts that do not depend on photutils."""
    from astropy.modeling.models import Gaussian2D
    import astropy.units as u

    # hand windows
    assert window((7, 7), (3, 3), 3, 3) == (slice(2, 5), slice(2, 5))
    assert window((7, 7), (3, 3), 0, 0) == (slice(0, 2), slice(0, 2))
    assert window((7, 7), (3, 3), -2, 3) is None            # rows -3..-1: off
    assert window((7, 7), (3, 3), -1, 3) == (slice(0, 1), slice(2, 5))
    assert window((7, 7), (4, 2), 3, 3) == (slice(1, 5), slice(2, 4))   # even sizes
    assert window((7, 9), (3, 3), 3, 9.4) == (slice(2, 5), slice(8, 9))
    assert window((7, 9), (3, 3), 3, 10.6) is None

    def g(x, y, a, x0, y0, sx, sy):
        return a * np.exp(-0.5 * ((x - x0) / sx) ** 2 - 0.5 * ((y - y0) / sy) ** 2)

    model = Gaussian2D(1.0, 0.0, 0.0, 1.0, 1.0, 0.0)
    rows = [dict(params=dict(amplitude=2.0, x_mean=3.2, y_mean=2.9, x_stddev=1.1, y_stddev=0.7),
                 model_shape=(3, 5), local_bkg=0.25),
            dict(params=dict(amplitude=5.0, x_mean=-20.0, y_mean=2.0), model_shape=(5, 5), local_bkg=9.0),
            dict(params=dict(amplitude=3.0, x_mean=0.4, y_mean=6.0, x_stddev=2.0, y_stddev=2.0),
                 model_shape=(4, 4), local_bkg=0.0)]
    out = render((8, 9), model, rows, 'x_mean', 'y_mean')
    yy, xx = np.mgrid[0:8, 0:9]
    exp = np.zeros((8, 9))
    exp[2:5, 1:6] += g(xx, yy, 2.0, 3.2, 2.9, 1.1, 0.7)[2:5, 1:6] + 0.25
    # 4x4 box centred at (6.0, 0.4): rows ceil(6-2)=4..7, cols ceil(0.4-2)=-1..2 -> 0..2
    exp[4:8, 0:3] += g(xx, yy, 3.0, 0.4, 6.0, 2.0, 2.0)[4:8, 0:3]
    assert np.allclose(out['values'], exp, rtol=1e-13, atol=0), np.abs(out['values'] - exp).max()
    assert list(out['overlap']) == [True, False, True]
    assert out['unit'] is None

    # interp / oversample against direct definitions on one pixel
    row = [dict(params=dict(amplitude=2.0, x_mean=3.2, y_mean=2.9, x_stddev=1.1, y_stddev=0.7),
                model_shape=(1, 1), local_bkg=0.0)]
    o = render((8, 9), model, row, 'x_mean', 'y_mean', method='interp')
    px, py = 3, 3
    corners = [g(px + dx, py + dy, 2.0, 3.2, 2.9, 1.1, 0.7) for dx in (-.5, .5) for dy in (-.5, .5)]
    assert abs(o['values'][py, px] - np.mean(corners)) < 1e-14
    o = render((8, 9), model, row, 'x_mean', 'y_mean', method='oversample', oversample=2)
    sub = [g(px + dx, py + dy, 2.0, 3.2, 2.9, 1.1, 0.7) for dx in (-.25, .25) for dy in (-.25, .25)]
    assert abs(o['values'][py, px] - np.mean(sub)) < 1e-14
    assert np.count_nonzero(o['values']) == 1

    # own interp/oversample agree with astropy's discretize_model on a window
    from astropy.convolution import discretize_model
    m = Gaussian2D(2.0, 3.2, 2.9, 1.1, 0.7, 0.3)
    slc = (slice(1, 6), slice(0, 7))
    for meth, amode in (('interp', 'linear_interp'), ('oversample', 'oversample')):
        a = evaluate(m, slc, meth, 3)
        b = discretize_model(m, (0, 7), (1, 6), mode=amode, factor=3)
        assert a.shape == b.shape and np.allclose(a, b, rtol=1e-12, atol=0), meth

    # units
    rows_u = [dict(params=dict(amplitude=2.0 * u.Jy, x_mean=3.0, y_mean=3.0), model_shape=(3, 3),
                   local_bkg=1.0 * u.Jy)]
    o = render((7, 7), model, rows_u, 'x_mean', 'y_mean')
    assert o['unit'] == u.Jy and abs(o['values'][3, 3] - 3.0) < 1e-15 and o['values'][0, 0] == 0

    # footprint of image-based models (synthetic stand-in: only the documented attributes are used)
    class _Img:
        data = np.zeros((3, 17, 25))
        oversampling = np.array([2, 4])
    assert image_model_footprint(_Img()) == (8.5, 6.25) and shape_from_bbox(_Img()) == (9, 7)
    assert image_model_footprint(Gaussian2D()) is None
    # bounding-box rule
    assert shape_from_bbox(Gaussian2D(1, 0, 0, 1.0, 2.0, 0.0)) == (22, 11)
    assert shape_from_bbox(Gaussian2D(1, 0, 0, 1.0, 2.0, 0.0), bbox_factor=2) == (8, 4)
