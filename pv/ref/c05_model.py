"""C05 reference: label algebra of SegmentationImage on plain numpy arrays.

Independent of photutils: the documented set-theoretic effect of every
mutator is applied label by label (``out[data == old] = new``), never through
a look-up table, and the derived attributes are recomputed from their
definitions (unique / count / bounding indices / BFS components).
"""
from __future__ import annotations

import numpy as np

from pv.ref import ccl


class Invalid(Exception):
    """The model predicts that the call must be rejected with `exc`."""

    def __init__(self, exc, why):
        super().__init__(why)
        self.exc = exc
        self.why = why


def labels_of(data):
    """Sorted python-int list of the non-zero values."""
    return sorted({int(v) for v in np.unique(data)} - {0})


def _as_label_list(labels):
    return [v for v in np.atleast_1d(np.asarray(labels)).ravel().tolist()]


class LabelModel:
    """numpy model of a SegmentationImage: label array + parent->children map."""

    def __init__(self, data, deblend=None):
        self.data = np.array(data, copy=True)
        self.deblend = {int(p): [int(c) for c in np.atleast_1d(ch)]
                        for p, ch in (deblend or {}).items()}
        self.child_removed = False      # some deblended child was mapped to background
        self.last_map = None

    # ------------------------------------------------------------------
    def labels(self):
        return labels_of(self.data)

    def check_labels(self, labels):
        have = set(self.labels())
        bad = [v for v in _as_label_list(labels) if v <= 0 or v not in have]
        if bad:
            raise Invalid(ValueError, f'labels {bad} are invalid')

    def _apply(self, mapping, relabel=False, start=1):
        """mapping: present label -> new value (identity when absent)."""
        labs = self.labels()
        m = {lab: int(mapping.get(lab, lab)) for lab in labs}
        if relabel:
            new = sorted({v for v in m.values() if v != 0})
            rank = {v: i + start for i, v in enumerate(new)}
            rank[0] = 0
            m = {lab: rank[v] for lab, v in m.items()}
        out = np.zeros_like(self.data)
        for lab, v in m.items():
            if v != 0:
                out[self.data == lab] = v
        self.data = out
        newdeb = {}
        for p, children in self.deblend.items():
            kept = []
            for c in children:
                v = m.get(c, c)
                if v == 0:
                    self.child_removed = True
                    continue
                if v not in kept:
                    kept.append(v)
            newdeb[p] = kept
        self.deblend = newdeb
        self.last_map = m

    # -- mutators --------------------------------------------------------
    def reassign(self, labels, new_label, relabel=False):
        self.check_labels(labels)
        ll = [int(v) for v in _as_label_list(labels)]
        self._apply({lab: int(new_label) for lab in ll}, relabel=relabel)

    def relabel_consecutive(self, start_label=1):
        if not self.labels():
            return 'noop_all_zero'
        if start_label <= 0:
            raise Invalid(ValueError, 'start_label must be > 0')
        self._apply({}, relabel=True, start=int(start_label))
        return None

    def keep(self, labels, relabel=False):
        self.check_labels(labels)
        keep = {int(v) for v in _as_label_list(labels)}
        self._apply({lab: 0 for lab in self.labels() if lab not in keep}, relabel=relabel)

    def remove(self, labels, relabel=False):
        self.check_labels(labels)
        self._apply({int(v): 0 for v in _as_label_list(labels)}, relabel=relabel)

    def masked_label_set(self, mask, partial_overlap):
        out = []
        for lab in self.labels():
            inside = mask[self.data == lab]
            if (inside.any() if partial_overlap else inside.all()):
                out.append(lab)
        return out

    def remove_masked(self, mask, partial_overlap=True, relabel=False):
        mask = np.asarray(mask)
        if mask.shape != self.data.shape:
            raise Invalid(ValueError, 'mask shape')
        rm = self.masked_label_set(mask.astype(bool), partial_overlap)
        self._apply({lab: 0 for lab in rm}, relabel=relabel)
        return rm

    @staticmethod
    def border_mask(shape, width):
        """Pixels closer than `width` pixels to any array edge."""
        idx = np.indices(shape)
        mask = np.zeros(shape, dtype=bool)
        for ax, n in enumerate(shape):
            mask |= (idx[ax] < width) | (idx[ax] >= n - width)
        return mask

    def remove_border(self, width, partial_overlap=True, relabel=False):
        if width >= min(self.data.shape) / 2:
            raise Invalid(ValueError, 'border_width too large')
        return self.remove_masked(self.border_mask(self.data.shape, int(width)),
                                  partial_overlap, relabel)

    def set_data(self, value):
        if not np.issubdtype(value.dtype, np.integer):
            raise Invalid(TypeError, 'non-integer data')
        if value.size and value.min() < 0:
            raise Invalid(ValueError, 'negative labels')
        self.data = np.array(value, copy=True)
        self.deblend = {}
        self.child_removed = False
        self.last_map = None


# ----------------------------------------------------------------------
# definitions of the derived attributes
# ----------------------------------------------------------------------
class Defs:
    """Derived attributes of a label array straight from their definitions."""

    def __init__(self, data):
        data = np.asarray(data)
        self.data = data
        self.dtype = data.dtype
        self.shape = data.shape
        self.labels = labels_of(data)
        self.nlabels = len(self.labels)
        self.max_label = max(self.labels) if self.labels else 0
        self.areas = []
        self.slices = []
        self.bbox = []          # (ixmin, ixmax, iymin, iymax)
        self.ncomp = []         # 8-connected components per label
        self.pix = []
        for lab in self.labels:
            ys, xs = np.nonzero(data == lab)
            self.pix.append((ys, xs))
            self.areas.append(int(ys.size))
            y0, y1, x0, x1 = int(ys.min()), int(ys.max()) + 1, int(xs.min()), int(xs.max()) + 1
            self.slices.append((slice(y0, y1, None), slice(x0, x1, None)))
            self.bbox.append((x0, x1, y0, y1))
            _, sizes = ccl.label_components((data == lab)[y0:y1, x0:x1], 8)
            self.ncomp.append(len(sizes))
        have = set(self.labels)
        self.missing = [v for v in range(1, self.max_label + 1) if v not in have]
        self.is_consecutive = (self.labels == list(range(1, self.nlabels + 1))) if self.labels else None
        self.background_area = int(np.sum(data == 0))
        self.no_background = self.background_area == 0 and self.nlabels > 0
        self.label_disconnected = any(n > 1 for n in self.ncomp)
        self.at_dtype_max = bool(self.labels) and self.max_label == int(np.iinfo(data.dtype).max)

    def flags(self):
        f = {}
        if self.label_disconnected:
            f['label_disconnected'] = True
        if self.no_background:
            f['no_background'] = True
        if self.at_dtype_max:
            f['label_at_dtype_max'] = True
        return f

    def index(self, label):
        return self.labels.index(int(label))


def selftest():
    doc = np.array([[1, 1, 0, 0, 4, 4],
                    [0, 0, 0, 0, 0, 4],
                    [0, 0, 3, 3, 0, 0],
                    [7, 0, 0, 0, 0, 5],
                    [7, 7, 0, 5, 5, 5],
                    [7, 7, 0, 0, 5, 5]])
    # documented examples (docstrings of SegmentationImage, copied by hand)
    m = LabelModel(doc)
    m.reassign(1, 4, relabel=True)
    assert m.data.tolist() == [[2, 2, 0, 0, 2, 2], [0, 0, 0, 0, 0, 2], [0, 0, 1, 1, 0, 0],
                               [4, 0, 0, 0, 0, 3], [4, 4, 0, 3, 3, 3], [4, 4, 0, 0, 3, 3]]
    m = LabelModel(doc)
    m.reassign([1, 7], 2, relabel=True)
    assert m.data.tolist() == [[1, 1, 0, 0, 3, 3], [0, 0, 0, 0, 0, 3], [0, 0, 2, 2, 0, 0],
                               [1, 0, 0, 0, 0, 4], [1, 1, 0, 4, 4, 4], [1, 1, 0, 0, 4, 4]]
    m = LabelModel(doc)
    m.relabel_consecutive()
    assert m.data.tolist() == [[1, 1, 0, 0, 3, 3], [0, 0, 0, 0, 0, 3], [0, 0, 2, 2, 0, 0],
                               [5, 0, 0, 0, 0, 4], [5, 5, 0, 4, 4, 4], [5, 5, 0, 0, 4, 4]]
    m = LabelModel(doc)
    m.keep([5, 3], relabel=True)
    assert labels_of(m.data) == [1, 2] and m.data[2, 2] == 1 and m.data[5, 5] == 2 and m.data[0, 0] == 0
    m = LabelModel(doc)
    m.remove([5, 3])
    assert labels_of(m.data) == [1, 4, 7]
    m = LabelModel(doc)
    m.remove_border(1)
    assert labels_of(m.data) == [3]
    m = LabelModel(doc)
    m.remove_border(1, partial_overlap=False)
    assert labels_of(m.data) == [3, 5, 7]
    m = LabelModel(doc)
    m.remove_border(0, relabel=False)
    assert np.array_equal(m.data, doc)
    mask = np.zeros(doc.shape, bool)
    mask[0, :] = True
    m = LabelModel(doc)
    m.remove_masked(mask)
    assert labels_of(m.data) == [3, 5, 7]
    m = LabelModel(doc)
    m.remove_masked(mask, partial_overlap=False)
    assert labels_of(m.data) == [3, 4, 5, 7]
    for bad in (lambda: LabelModel(doc).remove(2), lambda: LabelModel(doc).keep([1, 0]),
                lambda: LabelModel(doc).remove_border(3), lambda: LabelModel(doc).relabel_consecutive(0)):
        try:
            bad()
        except Invalid as e:
            assert e.exc is ValueError
        else:
            raise AssertionError('model accepted an invalid argument')
    # dtype preserved, deblend map follows, removed children dropped
    m = LabelModel(doc.astype(np.uint8), {2: [4, 5]})
    m.remove(4, relabel=True)
    assert m.data.dtype == np.uint8 and m.deblend == {2: [3]} and m.child_removed
    # definitions
    d = Defs(np.array([[2, 0, 2], [0, 0, 0], [5, 5, 0]], dtype=np.int16))
    assert d.labels == [2, 5] and d.areas == [2, 2] and d.ncomp == [2, 1] and d.label_disconnected
    assert d.slices[0] == (slice(0, 1, None), slice(0, 3, None)) and d.bbox[1] == (0, 2, 2, 3)
    assert d.missing == [1, 3, 4] and d.is_consecutive is False and d.background_area == 5
    assert not d.no_background and Defs(np.ones((2, 2), int)).no_background
    assert LabelModel.border_mask((4, 5), 1).sum() == 14 and not LabelModel.border_mask((4, 5), 0).any()
    assert Defs(np.array([[255, 0]], np.uint8)).at_dtype_max
