"""C13 reference mathematics: independent of photutils.

Only numpy/scipy primitives. Nothing here imports photutils.

* analytic PSF formulas written from the textbook definitions (used only for the
  self-test of the quadrature and for cross-checks that are *documented* formulas)
* pixel-integrated Gaussian through the normal CDF (scipy.special.ndtr), i.e. not the
  erf-difference expression used by the library
* polar quadrature (Gauss-Legendre panels in r, trapezoid in phi) of an arbitrary callable
* Moffat tail and Airy encircled energy in closed form
* cubic-spline reference (scipy RectBivariateSpline kx=ky=3, s=0, which is what the
  ImagePSF/GriddedPSFModel docstrings promise) and bilinear blending over a rectangular grid
"""
from __future__ import annotations

import numpy as np
from scipy.interpolate import RectBivariateSpline
from scipy.special import j0, j1, jn_zeros, ndtr

FWHM2SIG = 1.0 / (2.0 * np.sqrt(2.0 * np.log(2.0)))
RZ = jn_zeros(1, 1)[0] / np.pi          # first zero of J1(pi r) : 1.2196698912665045


# ----------------------------------------------------------------------------------------
# textbook formulas
# ----------------------------------------------------------------------------------------
def gauss2d(x, y, flux, x0, y0, sx, sy, theta_deg=0.0):
    """Elliptical Gaussian, total integral = flux, theta CCW in degrees."""
    t = np.deg2rad(theta_deg)
    dx, dy = np.asarray(x, float) - x0, np.asarray(y, float) - y0
    xp = dx * np.cos(t) + dy * np.sin(t)
    yp = -dx * np.sin(t) + dy * np.cos(t)
    return flux / (2 * np.pi * sx * sy) * np.exp(-0.5 * ((xp / sx) ** 2 + (yp / sy) ** 2))


def moffat2d(x, y, flux, x0, y0, alpha, beta):
    r2 = (np.asarray(x, float) - x0) ** 2 + (np.asarray(y, float) - y0) ** 2
    return flux * (beta - 1) / (np.pi * alpha ** 2) * (1 + r2 / alpha ** 2) ** (-beta)


def airy2d(x, y, flux, x0, y0, radius):
    """Airy pattern with first zero at `radius`, total integral = flux."""
    a = radius / RZ
    r = np.hypot(np.asarray(x, float) - x0, np.asarray(y, float) - y0)
    u = np.pi * r / a
    with np.errstate(invalid='ignore', divide='ignore'):
        z = np.where(u > 0, (2 * j1(u) / np.where(u > 0, u, 1.0)) ** 2, 1.0)
    return flux * np.pi / (4 * a ** 2) * z


def prf_gauss(x, y, flux, x0, y0, sx, sy, theta_deg=0.0):
    """Gaussian integrated over the unit pixel centred on (x, y), as *documented* in the GaussianPRF
    docstring: the pixel is taken in the rotated frame (x', y'). Uses the normal CDF, not erf differences."""
    t = np.deg2rad(theta_deg)
    dx, dy = np.asarray(x, float) - x0, np.asarray(y, float) - y0
    xp = dx * np.cos(t) + dy * np.sin(t)
    yp = -dx * np.sin(t) + dy * np.cos(t)
    return flux * _box(xp, sx) * _box(yp, sy)


def _box(d, s):
    """P(d-0.5 < N(0,s) < d+0.5), computed on the tail side to keep relative accuracy."""
    d = np.abs(np.asarray(d, float))
    # for d >= 0: ndtr(-(d-0.5)/s) - ndtr(-(d+0.5)/s) keeps small tails accurate
    return ndtr(-(d - 0.5) / s) - ndtr(-(d + 0.5) / s)


# ----------------------------------------------------------------------------------------
# quadrature
# ----------------------------------------------------------------------------------------
_GL = {}


def _gl(n):
    if n not in _GL:
        _GL[n] = np.polynomial.legendre.leggauss(n)
    return _GL[n]


def polar_integral(fn, x0, y0, edges, nphi=256, ngl=48):
    """Integral of fn(x, y) over the disc of radius edges[-1] about (x0, y0).

    edges: increasing radii starting at 0 (panel boundaries); Gauss-Legendre with ngl nodes per panel in r,
    periodic trapezoid with nphi nodes in phi. fn must accept arrays.
    """
    xs, ws = _gl(ngl)
    edges = np.asarray(edges, float)
    a, b = edges[:-1, None], edges[1:, None]
    r = (0.5 * (b - a) * xs[None, :] + 0.5 * (b + a)).ravel()
    w = (0.5 * (b - a) * ws[None, :]).ravel()
    phi = (np.arange(nphi) + 0.25) * (2 * np.pi / nphi)
    R, P = np.meshgrid(r, phi, indexing='ij')
    vals = np.asarray(fn(x0 + R * np.cos(P), y0 + R * np.sin(P)), float)
    return float(np.sum((vals.sum(axis=1) * (2 * np.pi / nphi)) * w * r))


def moffat_tail(flux, alpha, beta, R):
    """Flux of the Moffat profile outside radius R."""
    return flux * (1 + (R / alpha) ** 2) ** (1 - beta)


def airy_encircled(flux, radius, R):
    """Flux of the Airy pattern (first zero at `radius`) inside radius R:  F (1 - J0^2(u) - J1^2(u))."""
    u = np.pi * R / (radius / RZ)
    return flux * (1 - j0(u) ** 2 - j1(u) ** 2)


# ----------------------------------------------------------------------------------------
# image models
# ----------------------------------------------------------------------------------------
def spline(data):
    ny, nx = data.shape
    return RectBivariateSpline(np.arange(nx), np.arange(ny), np.asarray(data, float).T, kx=3, ky=3, s=0)


def image_index(x, x0, origin, osamp):
    """Oversampled array index of output coordinate x (documented transform)."""
    return osamp * (np.asarray(x, float) - x0) + origin


def bilinear_corners(xg, yg, x, y):
    """For sorted 1-D grid coordinate arrays xg, yg (len >= 2 each) and a point (x, y): the four corner
    grid coordinates and weights of the bilinear blend, with the point clamped to the grid rectangle
    (nearest edge outside the grid).  Returns list of ((gx, gy), weight) with weight > 0 dropped if 0."""
    xc = min(max(x, xg[0]), xg[-1])
    yc = min(max(y, yg[0]), yg[-1])
    i = int(np.searchsorted(xg, xc, side='right') - 1)
    j = int(np.searchsorted(yg, yc, side='right') - 1)
    i = min(max(i, 0), len(xg) - 2)
    j = min(max(j, 0), len(yg) - 2)
    x0, x1, y0, y1 = xg[i], xg[i + 1], yg[j], yg[j + 1]
    tx = (xc - x0) / (x1 - x0)
    ty = (yc - y0) / (y1 - y0)
    out = [((x0, y0), (1 - tx) * (1 - ty)), ((x1, y0), tx * (1 - ty)),
           ((x0, y1), (1 - tx) * ty), ((x1, y1), tx * ty)]
    return [(p, w) for p, w in out if w != 0.0]


# ----------------------------------------------------------------------------------------
def selftest():
    # polar quadrature vs closed forms
    g = lambda x, y: gauss2d(x, y, 3.0, 0.3, -0.2, 0.7, 2.1, 33.0)  # noqa: E731
    edges = np.arange(0, 8 * 2.1 + 1e-9, 0.7)
    val = polar_integral(g, 0.3, -0.2, edges)
    assert abs(val / 3.0 - 1) < 1e-11, val
    # off-centre disc still captures everything when large enough
    val = polar_integral(g, 0.0, 0.0, np.arange(0, 30, 0.7))
    assert abs(val / 3.0 - 1) < 1e-11, val
    m = lambda x, y: moffat2d(x, y, 2.0, 1.0, 1.0, 1.5, 2.5)  # noqa: E731
    R = 45.0
    val = polar_integral(m, 1.0, 1.0, np.concatenate([[0], np.geomspace(0.1, R, 60)]))
    assert abs((val + moffat_tail(2.0, 1.5, 2.5, R)) / 2.0 - 1) < 1e-11, val
    a = lambda x, y: airy2d(x, y, 1.0, 0.0, 0.0, 2.0)  # noqa: E731
    R = 20.0
    val = polar_integral(a, 0.0, 0.0, np.arange(0, R + 1e-9, 0.25), nphi=8)
    assert abs(val - airy_encircled(1.0, 2.0, R)) < 1e-11, (val, airy_encircled(1.0, 2.0, R))
    assert abs(airy_encircled(1.0, 2.0, 2.0) - 0.8378) < 5e-5      # classic 83.8 % inside the first dark ring
    assert abs(airy2d(2.0, 0.0, 1.0, 0.0, 0.0, 2.0)) < 1e-30                    # first zero
    # CDF pixel integral: lattice sum = flux and equals a brute-force quadrature of the Gaussian over a pixel
    yy, xx = np.mgrid[-12:13, -12:13]
    s = prf_gauss(xx, yy, 5.0, 0.37, -0.41, 0.9, 1.4).sum()
    assert abs(s / 5.0 - 1) < 1e-12, s
    xs, ws = _gl(40)
    px, py = 2.0, -1.0
    X, Y = np.meshgrid(px + 0.5 * xs, py + 0.5 * xs)
    W = np.outer(ws, ws) * 0.25
    brute = np.sum(W * gauss2d(X, Y, 5.0, 0.37, -0.41, 0.9, 1.4))
    assert abs(prf_gauss(px, py, 5.0, 0.37, -0.41, 0.9, 1.4) / brute - 1) < 1e-12
    # spline reproduces its nodes
    rng = np.random.default_rng(5)
    d = rng.random((6, 9))
    sp = spline(d)
    ii, jj = np.meshgrid(np.arange(9.0), np.arange(6.0))
    assert np.allclose(sp(ii, jj, grid=False), d, rtol=0, atol=1e-13)
    # bilinear weights
    xg, yg = np.array([0.0, 4.0, 10.0]), np.array([1.0, 2.0])
    c = bilinear_corners(xg, yg, 5.0, 1.25)
    assert abs(sum(w for _, w in c) - 1) < 1e-15 and len(c) == 4
    assert bilinear_corners(xg, yg, 4.0, 1.0) == [((4.0, 1.0), 1.0)] or \
        [p for p, w in bilinear_corners(xg, yg, 4.0, 1.0)] == [(4.0, 1.0)]
    assert [p for p, w in bilinear_corners(xg, yg, -3.0, 7.0)] == [(0.0, 2.0)]
    c = dict(bilinear_corners(xg, yg, 12.0, 1.5))
    assert c == {(10.0, 1.0): 0.5, (10.0, 2.0): 0.5}
