"""C14 reference helpers (no photutils imports).

* peak_status            : three-valued per-pixel oracle for find_peaks
* conv_reference         : zero-padded 2-D convolution (scipy.signal.convolve2d, direct sums)
* candidates / must_peaks: weakest / strongest reading of "local maximum of the convolved image above
                           the threshold" used for the star finders
"""
from __future__ import annotations

import numpy as np
from scipy.signal import convolve2d

EXCLUDE, EITHER, MUST = 0, 1, 2


def _shift(arr, dy, dx, fill):
    """out[y, x] = arr[y + dy, x + dx] where that is inside the array, else fill."""
    ny, nx = arr.shape
    out = np.full(arr.shape, fill, dtype=arr.dtype)
    ys0, ys1 = max(0, -dy), min(ny, ny - dy)
    xs0, xs1 = max(0, -dx), min(nx, nx - dx)
    if ys0 < ys1 and xs0 < xs1:
        out[ys0:ys1, xs0:xs1] = arr[ys0 + dy:ys1 + dy, xs0 + dx:xs1 + dx]
    return out


def _status_one(data, base_ok, mask, footprint, cy, cx):
    """Status for one alignment of the footprint (its element [cy, cx] sits on the pixel)."""
    ny, nx = data.shape
    v = data
    gt_unmasked = np.zeros(data.shape, bool)
    gt_masked = np.zeros(data.shape, bool)
    overhang = np.zeros(data.shape, bool)
    eq_nb = np.zeros(data.shape, bool)
    centre_in = False
    inside_all = np.ones(data.shape, bool)
    for j, i in zip(*np.nonzero(footprint)):
        dy, dx = int(j) - cy, int(i) - cx
        if dy == 0 and dx == 0:
            centre_in = True
            continue
        inside = _shift(inside_all, dy, dx, False)
        nbv = _shift(data, dy, dx, np.nan)
        nbm = _shift(mask, dy, dx, False)
        overhang |= ~inside
        with np.errstate(invalid='ignore'):
            gt = nbv > v
            eq = nbv == v
        gt_unmasked |= gt & ~nbm
        gt_masked |= gt & nbm
        eq_nb |= eq
    excl = ~base_ok | gt_unmasked
    with np.errstate(invalid='ignore'):
        neg_overhang = overhang & (v < 0)
    either = gt_masked | neg_overhang
    if not centre_in:
        either |= ~eq_nb
    st = np.where(excl, EXCLUDE, np.where(either, EITHER, MUST)).astype(np.int8)
    why = {'masked_neighbour_is_max': (~excl) & gt_masked,
           'negative_under_overhang': (~excl) & neg_overhang & ~gt_masked,
           'strict_peak_centre_not_in_footprint': (~excl) & (~eq_nb if not centre_in else np.zeros_like(excl))}
    return st, why


def peak_status(data, threshold, footprint, mask=None, border=None):
    """Three-valued oracle for find_peaks.

    data       2-D float array (raw, may contain NaN / inf)
    threshold  scalar or 2-D
    footprint  2-D bool array (box_size=(n, m) -> ones((n, m)))
    border     None or (ny, nx) widths
    Returns (status int8 array with EXCLUDE/EITHER/MUST, dict reason -> count of EITHER pixels).

    MUST    unmasked, not in the border, data > threshold, no unmasked in-image footprint neighbour is larger,
            and none of the EITHER conditions holds
    EXCLUDE masked, in the border, NaN, data <= threshold, or an unmasked in-image footprint neighbour is larger
    EITHER  (documentation silent) a masked neighbour is larger; value < 0 and the footprint overhangs the image
            (the library pads with 0); the footprint does not contain its own centre and the pixel is strictly
            larger than all its neighbours; even-sized footprints: the two possible alignments disagree
    """
    data = np.asarray(data, dtype=float)
    ny, nx = data.shape
    fp = np.asarray(footprint, dtype=bool)
    m = np.zeros(data.shape, bool) if mask is None else np.asarray(mask, dtype=bool)
    with np.errstate(invalid='ignore'):
        above = data > threshold
    base_ok = above & ~m & ~np.isnan(data)
    if border is not None:
        by, bx = int(border[0]), int(border[1])
        b = np.zeros(data.shape, bool)
        if by > 0:
            b[:by, :] = True
            b[max(0, ny - by):, :] = True
        if bx > 0:
            b[:, :bx] = True
            b[:, max(0, nx - bx):] = True
        base_ok &= ~b
    fy, fx = fp.shape
    aligns = {(fy // 2, fx // 2), ((fy - 1) // 2, (fx - 1) // 2), (fy // 2, (fx - 1) // 2), ((fy - 1) // 2, fx // 2)}
    sts, whys = [], []
    for cy, cx in sorted(aligns):
        st, why = _status_one(data, base_ok, m, fp, cy, cx)
        sts.append(st)
        whys.append(why)
    st = sts[0].copy()
    reasons = {}
    if len(sts) > 1:
        allmust = np.all([s == MUST for s in sts], axis=0)
        allexcl = np.all([s == EXCLUDE for s in sts], axis=0)
        amb = ~(allmust | allexcl) & np.all([(s == MUST) | (s == EXCLUDE) for s in sts], axis=0)
        st = np.where(allmust, MUST, np.where(allexcl, EXCLUDE, EITHER)).astype(np.int8)
        reasons['even_footprint_alignment'] = int(amb.sum())
    for k in whys[0]:
        reasons[k] = int(np.any([w[k] for w in whys], axis=0).sum())
    return st, reasons


def conv_reference(data, kernel):
    """Convolution with zero padding, same size, kernel centred (odd kernel shapes)."""
    return convolve2d(np.asarray(data, float), np.asarray(kernel, float), mode='same', boundary='fill', fillvalue=0.0)


def _disk_offsets(r):
    n = int(np.floor(r))
    out = []
    for dy in range(-n, n + 1):
        for dx in range(-n, n + 1):
            if (dy or dx) and dy * dy + dx * dx <= r * r + 1e-12:
                out.append((dy, dx))
    return out


def candidates(conv, thr, mask, eps, xborder=0, yborder=0, conn=8):
    """Weakest reading: pixel is unmasked, not NaN, conv > thr - eps, outside the excluded border, and no unmasked
    8-neighbour (4-neighbour for conn=4: a minimum separation below sqrt(2) allows diagonal neighbours) exceeds
    it by more than eps.  Every peak any sensible finder reports is in this set."""
    conv = np.asarray(conv, float)
    ny, nx = conv.shape
    m = np.zeros(conv.shape, bool) if mask is None else np.asarray(mask, bool)
    with np.errstate(invalid='ignore'):
        ok = (conv > thr - eps) & ~m & ~np.isnan(conv)
    for dy in (-1, 0, 1):
        for dx in (-1, 0, 1):
            if (dy == 0 and dx == 0) or (conn == 4 and dy and dx):
                continue
            nb = _shift(conv, dy, dx, np.nan)
            nm = _shift(m, dy, dx, True)
            with np.errstate(invalid='ignore'):
                ok &= ~((nb > conv + eps) & ~nm)
    if yborder > 0:
        ok[:yborder, :] = False
        ok[ny - yborder:, :] = False
    if xborder > 0:
        ok[:, :xborder] = False
        ok[:, nx - xborder:] = False
    ys, xs = np.nonzero(ok)
    return np.transpose((xs, ys))


def must_peaks(conv, thr, mask, eps, radius, xborder=0, yborder=0):
    """Strongest reading: unmasked pixel with conv > thr + eps that exceeds by more than eps every other pixel
    (masked or not, NaN treated as a blocker) within the closed disk of `radius`, lies at least
    radius from every image edge when a border is excluded (border + 1), and has no NaN in its disk."""
    conv = np.asarray(conv, float)
    ny, nx = conv.shape
    m = np.zeros(conv.shape, bool) if mask is None else np.asarray(mask, bool)
    with np.errstate(invalid='ignore'):
        ok = (conv > thr + eps) & ~m & ~np.isnan(conv)
    for dy, dx in _disk_offsets(radius):
        nb = _shift(conv, dy, dx, -np.inf)
        with np.errstate(invalid='ignore'):
            ok &= (conv > nb + eps)            # NaN neighbour -> False -> not a must peak
    if yborder > 0:
        ok[:yborder + 1, :] = False
        ok[ny - yborder - 1:, :] = False
    if xborder > 0:
        ok[:, :xborder + 1] = False
        ok[:, nx - xborder - 1:] = False
    ys, xs = np.nonzero(ok)
    return np.transpose((xs, ys))


# ----------------------------------------------------------------------
def selftest():
    # hand cases for the peak oracle, 3x3 box
    d = np.array([[1., 1., 1., 1., 1.],
                  [1., 5., 1., 1., 1.],
                  [1., 1., 1., 4., 4.],
                  [1., 1., 1., 1., 1.]])
    st, _ = peak_status(d, 2.0, np.ones((3, 3), bool))
    assert st[1, 1] == MUST and st[2, 3] == MUST and st[2, 4] == MUST          # plateau: both tied pixels
    assert (st == MUST).sum() == 3 and (st == EITHER).sum() == 0
    st, _ = peak_status(d, 4.0, np.ones((3, 3), bool))                          # strict threshold
    assert st[1, 1] == MUST and (st == MUST).sum() == 1
    mk = np.zeros(d.shape, bool)
    mk[1, 1] = True
    st, r = peak_status(d, 0.5, np.ones((3, 3), bool), mask=mk)
    assert st[1, 1] == EXCLUDE                                                    # masked pixel itself
    assert st[0, 0] == EITHER and st[2, 0] == EITHER and st[2, 2] == EXCLUDE and r['masked_neighbour_is_max'] == 6
    assert st[3, 0] == MUST                                                       # plateau of ones away from it
    st, _ = peak_status(d, 0.5, np.ones((3, 3), bool), border=(1, 0))
    assert st[0, 0] == EXCLUDE and st[3, 4] == EXCLUDE and st[1, 1] == MUST and st[2, 4] == MUST
    st, _ = peak_status(d, 0.5, np.ones((3, 3), bool), border=(0, 1))
    assert st[2, 4] == EXCLUDE and st[2, 3] == MUST
    # negative image: interior negative peak must be found, edge one is 'either'
    n = -np.ones((5, 5)) * 5
    n[2, 2] = -1.0
    n[0, 4] = -2.0
    st, r = peak_status(n, -4.0, np.ones((3, 3), bool))
    assert st[2, 2] == MUST and st[0, 4] == EITHER and r['negative_under_overhang'] == 1
    # NaN: never a peak itself, ignored as a neighbour
    q = d.copy()
    q[1, 2] = np.nan
    st, _ = peak_status(q, 2.0, np.ones((3, 3), bool))
    assert st[1, 2] == EXCLUDE and st[1, 1] == MUST
    # asymmetric footprint: only the right-hand neighbour counts
    fp = np.array([[0, 1, 1]], bool)
    row = np.array([[3., 2., 1., 5.]])
    st, _ = peak_status(row, 0.0, fp)
    assert list(st[0]) == [MUST, MUST, EXCLUDE, MUST]
    # footprint without its centre: strict peak is 'either', tied pixel is MUST
    fp = np.array([[1, 0, 1]], bool)
    st, _ = peak_status(np.array([[1., 3., 1., 3., 3., 3.]]), 0.0, fp)
    assert st[0, 1] == EITHER and st[0, 4] == MUST
    # even box: alignments disagree only where a neighbour on one side is larger
    st, r = peak_status(np.array([[1., 2., 3., 1., 1.]]), 0.0, np.ones((1, 2), bool))
    assert list(st[0]) == [EITHER, EITHER, MUST, EITHER, MUST]
    # convolution reference
    img = np.zeros((7, 9))
    img[3, 4] = 2.0
    k = np.arange(15.).reshape(3, 5)
    c = conv_reference(img, k)
    assert np.array_equal(c[2:5, 2:7], 2.0 * k)
    img2 = np.zeros((7, 9))
    img2[0, 0] = 1.0
    assert np.array_equal(conv_reference(img2, k)[:2, :3], k[1:, 2:])
    # candidates / must peaks
    cv = np.zeros((9, 9))
    cv[4, 4] = 5.0
    cv[4, 6] = 3.0
    c = candidates(cv, 1.0, None, 1e-12)
    assert sorted(map(tuple, c)) == [(4, 4), (6, 4)]
    m = must_peaks(cv, 1.0, None, 1e-12, 3.0)
    assert sorted(map(tuple, m)) == [(4, 4)]
    m = must_peaks(cv, 1.0, None, 1e-12, 1.5)
    assert sorted(map(tuple, m)) == [(4, 4), (6, 4)]
    assert len(candidates(cv, 1.0, None, 1e-12, xborder=5, yborder=0)) == 0
    cv2 = np.zeros((5, 5))
    cv2[2, 2] = 5.0
    cv2[3, 3] = 3.0
    assert len(candidates(cv2, 1.0, None, 1e-12)) == 1 and len(candidates(cv2, 1.0, None, 1e-12, conn=4)) == 2
