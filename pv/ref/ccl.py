"""Reference connected-component labelling (own BFS; no scipy.ndimage.label)."""
from collections import deque

import numpy as np


def label_components(binary, connectivity):
    """Label True pixels of `binary`; components numbered 1..N in raster
    order of each component's first pixel. Returns (labels int64, sizes list)."""
    binary = np.asarray(binary, dtype=bool)
    ny, nx = binary.shape
    out = np.zeros((ny, nx), dtype=np.int64)
    if connectivity == 4:
        nbrs = ((-1, 0), (1, 0), (0, -1), (0, 1))
    elif connectivity == 8:
        nbrs = ((-1, -1), (-1, 0), (-1, 1), (0, -1), (0, 1), (1, -1), (1, 0), (1, 1))
    else:
        raise ValueError(connectivity)
    sizes = []
    cur = 0
    for y in range(ny):
        for x in range(nx):
            if binary[y, x] and out[y, x] == 0:
                cur += 1
                out[y, x] = cur
                q = deque([(y, x)])
                n = 0
                while q:
                    cy, cx = q.popleft()
                    n += 1
                    for dy, dx in nbrs:
                        yy, xx = cy + dy, cx + dx
                        if 0 <= yy < ny and 0 <= xx < nx and binary[yy, xx] and out[yy, xx] == 0:
                            out[yy, xx] = cur
                            q.append((yy, xx))
                sizes.append(n)
    return out, sizes


def detect_reference(data, threshold, npixels, connectivity, mask=None):
    """Documented semantics of detect_sources. Returns label array or None."""
    with np.errstate(invalid='ignore'):
        d = np.asarray(data)
        if d.dtype.kind in 'fiu':
            # exact real-number comparison (every float16/32, int value is exact in float64)
            above = d.astype(np.float64) > np.asarray(threshold, dtype=np.float64)   # strict; NaN -> False
        else:
            above = d > threshold
    if mask is not None:
        above = above & ~np.asarray(mask, dtype=bool)
    lab, sizes = label_components(above, connectivity)
    keep = [i + 1 for i, n in enumerate(sizes) if n >= npixels]
    if not keep:
        return None
    out = np.zeros_like(lab)
    for new, old in enumerate(keep, start=1):
        out[lab == old] = new
    return out


def selftest():
    b = np.array([[1, 0, 1], [0, 1, 0], [1, 0, 0]], bool)
    l4, s4 = label_components(b, 4)
    assert s4 == [1, 1, 1, 1] and l4.max() == 4
    l8, s8 = label_components(b, 8)
    assert s8 == [4] and (l8[b] == 1).all()
    # raster order of first pixel
    b = np.array([[0, 1, 0, 1], [1, 1, 0, 1]], bool)
    l, s = label_components(b, 4)
    assert l.tolist() == [[0, 1, 0, 2], [1, 1, 0, 2]] and s == [3, 2]
    d = np.array([[1., 2., np.nan], [2., 2., 3.]])
    r = detect_reference(d, 2.0, 1, 8)
    assert r.tolist() == [[0, 0, 0], [0, 0, 1]]
    assert detect_reference(d, 3.0, 1, 8) is None
    r = detect_reference(d, 1.0, 2, 4)
    assert r.tolist() == [[0, 1, 0], [1, 1, 1]]
