"""Reference model for aperture sums (C02; reused by C16).

The aperture's own ``to_mask(...)`` output (``mask.data`` weights and the
integer ``mask.bbox``) is taken as given (it is judged by C01).  Everything
after that is done here with plain index arithmetic: the weights are pasted
into a full-frame weight map W, and sums are taken over
{in image, W > 0, not masked}.  No ApertureMask method, no BoundingBox method
and no photutils function is used.
"""
from __future__ import annotations

import math

import numpy as np


def box_of(mask):
    """(ixmin, ixmax, iymin, iymax) integers of an ApertureMask's box."""
    b = mask.bbox
    return int(b.ixmin), int(b.ixmax), int(b.iymin), int(b.iymax)


def weight_map(shape, mdata, box):
    """Paste the box-shaped weight array `mdata` into a zero frame of `shape`.

    Returns (W, inbox, overlap): full-frame weights, boolean map of the frame
    pixels covered by the box, and whether the box has any pixel in the frame.
    Pixel (j, i) of the box is frame pixel (iymin + j, ixmin + i).
    """
    ny, nx = shape
    ixmin, ixmax, iymin, iymax = box
    mdata = np.asarray(mdata)
    if mdata.shape != (iymax - iymin, ixmax - ixmin):
        raise ValueError('mask data shape does not match its box')
    W = np.zeros(shape, dtype=float)
    inbox = np.zeros(shape, dtype=bool)
    ys = np.arange(iymin, iymax)
    xs = np.arange(ixmin, ixmax)
    ry = (ys >= 0) & (ys < ny)
    rx = (xs >= 0) & (xs < nx)
    overlap = bool(ry.any() and rx.any())
    if overlap:
        sub = mdata[ry][:, rx]
        W[np.ix_(ys[ry], xs[rx])] = sub
        inbox[np.ix_(ys[ry], xs[rx])] = True
    return W, inbox, overlap


def weight_map_loops(shape, mdata, box):
    """Same as weight_map with explicit Python loops (used by the self-test)."""
    ny, nx = shape
    ixmin, ixmax, iymin, iymax = box
    W = np.zeros(shape)
    inbox = np.zeros(shape, bool)
    hit = False
    for j in range(iymax - iymin):
        for i in range(ixmax - ixmin):
            y, x = iymin + j, ixmin + i
            if 0 <= y < ny and 0 <= x < nx:
                W[y, x] = mdata[j][i]
                inbox[y, x] = True
                hit = True
    return W, inbox, hit


def _fsum(a):
    a = np.asarray(a, dtype=float).ravel()
    if a.size == 0:
        return 0.0
    if np.all(np.isfinite(a)):
        return math.fsum(a.tolist())
    with np.errstate(all='ignore'):
        return float(np.sum(a))


def good_set(W, mask=None):
    S = W > 0
    if mask is not None:
        S = S & ~np.asarray(mask, dtype=bool)
    return S


def ref_sum(data, W, overlap, mask=None):
    """(sum, scale): sum of W*data over {W>0, ~mask}; NaN if the box misses the
    frame; scale = sum of |terms| (for the rounding tolerance)."""
    if not overlap:
        return float('nan'), 0.0
    S = good_set(W, mask)
    with np.errstate(all='ignore'):
        terms = (W * np.asarray(data, dtype=float))[S]
    return _fsum(terms), _fsum(np.abs(terms))


def ref_err(error, W, overlap, mask=None):
    if not overlap:
        return float('nan')
    S = good_set(W, mask)
    with np.errstate(all='ignore'):
        terms = (W * np.asarray(error, dtype=float) ** 2)[S]
        return float(np.sqrt(_fsum(terms)))


def ref_area(W, overlap, mask=None):
    if not overlap:
        return float('nan')
    return _fsum(W[good_set(W, mask)])


def ref_get_values(data, W, mask=None):
    """1-D weighted values in raster order over {W>0, ~mask} (empty if none)."""
    S = good_set(W, mask)
    with np.errstate(all='ignore'):
        return (np.asarray(data)[S] * W[S])


def ref_multiply(data, mdata, box, fill_value=0.0):
    """Box-shaped weighted cutout: (data or fill outside the frame) * weight,
    fill_value where the weight is exactly zero. None if the box misses the frame."""
    data = np.asarray(data)
    ny, nx = data.shape
    ixmin, ixmax, iymin, iymax = box
    out = np.empty((iymax - iymin, ixmax - ixmin), dtype=float)
    hit = False
    for j in range(iymax - iymin):
        y = iymin + j
        for i in range(ixmax - ixmin):
            x = ixmin + i
            w = mdata[j, i]
            if 0 <= y < ny and 0 <= x < nx:
                hit = True
                v = float(data[y, x])
            else:
                v = fill_value
            with np.errstate(all='ignore'):
                out[j, i] = fill_value if w == 0 else np.float64(v) * np.float64(w)
    return out if hit else None


def near(obs, exp, scale, rtol, atol=0.0):
    """Scalar comparison with the tolerance rtol*scale + atol (scale >= |exp|).
    Non-finite expected values must be reproduced exactly (NaN==NaN).
    Returns (ok, deviation relative to scale)."""
    obs, exp = float(obs), float(exp)
    if not math.isfinite(exp):
        ok = (math.isnan(exp) and math.isnan(obs)) or obs == exp
        return ok, 0.0 if ok else float('inf')
    if not math.isfinite(obs):
        return False, float('inf')
    if not math.isfinite(scale):
        return True, 0.0          # inf among the terms but finite result cannot happen; be permissive
    d = abs(obs - exp)
    if d == 0.0:
        return True, 0.0
    s = max(scale, abs(exp))
    if d <= atol:
        return True, (d / s if s > 0 else 0.0)
    if s == 0.0:
        return False, float('inf')
    return d <= rtol * s + atol, d / s


def selftest():
    selftest_center()
    rng = np.random.default_rng(7)
    # hand case: 3x3 box at (ixmin=-1, iymin=2) on a 4x3 frame (ny=4, nx=3)
    m = np.arange(1, 10, dtype=float).reshape(3, 3) / 10
    W, inbox, ov = weight_map((4, 3), m, (-1, 2, 2, 5))
    exp = np.zeros((4, 3))
    exp[2, 0], exp[2, 1] = 0.2, 0.3
    exp[3, 0], exp[3, 1] = 0.5, 0.6
    assert ov and np.array_equal(W, exp), W
    assert inbox.sum() == 4 and inbox[2, 0] and inbox[3, 1]
    # boxes that miss the frame by exactly one pixel on each side
    for box in [(-3, 0, 0, 3), (3, 6, 0, 3), (0, 3, -3, 0), (0, 3, 4, 7)]:
        assert weight_map((4, 3), np.ones((3, 3)), box)[2] is False
    for box in [(-3, 1, 0, 3), (2, 5, 0, 3), (0, 3, -3, 1), (0, 3, 3, 6)]:
        w, _, o = weight_map((4, 3), np.ones((box[3] - box[2], box[1] - box[0])), box)
        assert o and w.sum() == 3
    # random agreement with the loop version
    for _ in range(200):
        shape = (int(rng.integers(1, 9)), int(rng.integers(1, 9)))
        x0, y0 = int(rng.integers(-6, 10)), int(rng.integers(-6, 10))
        bw, bh = int(rng.integers(1, 7)), int(rng.integers(1, 7))
        m = rng.random((bh, bw))
        a = weight_map(shape, m, (x0, x0 + bw, y0, y0 + bh))
        b = weight_map_loops(shape, m, (x0, x0 + bw, y0, y0 + bh))
        assert np.array_equal(a[0], b[0]) and np.array_equal(a[1], b[1]) and a[2] == b[2]
    # sums: hand case
    data = np.array([[1., 2.], [3., 4.]])
    W = np.array([[0.5, 0.0], [1.0, 0.25]])
    s, sc = ref_sum(data, W, True)
    assert s == 0.5 + 3.0 + 1.0 and sc == s
    s, _ = ref_sum(data, W, True, mask=np.array([[False, False], [True, False]]))
    assert s == 1.5
    assert ref_area(W, True) == 1.75
    assert abs(ref_err(data, W, True) - math.sqrt(0.5 + 9 + 4)) < 1e-15
    assert math.isnan(ref_sum(data, W, False)[0]) and math.isnan(ref_area(W, False))
    # NaN under zero weight / mask is invisible, NaN under positive weight is not
    d2 = data.copy()
    d2[0, 1] = np.nan
    assert ref_sum(d2, W, True)[0] == 4.5
    d2[0, 0] = np.nan
    assert math.isnan(ref_sum(d2, W, True)[0])
    assert ref_sum(d2, W, True, mask=np.array([[True, False], [False, False]]))[0] == 4.0
    assert np.array_equal(ref_get_values(data, W), np.array([0.5, 3.0, 1.0]))
    mm = ref_multiply(data, np.array([[1.0, 0.5, 0.0]]), (1, 4, 1, 2), fill_value=-7.0)
    assert np.array_equal(mm, np.array([[4.0, -3.5, -7.0]])), mm
    assert ref_multiply(data, np.ones((1, 1)), (5, 6, 0, 1)) is None
    assert near(1.0 + 1e-12, 1.0, 1.0, 1e-10)[0] and not near(1.0 + 1e-8, 1.0, 1.0, 1e-10)[0]
    assert near(float('nan'), float('nan'), 0, 0)[0] and not near(0.0, float('nan'), 0, 0)[0]
    assert near(float('inf'), float('inf'), 0, 0)[0] and not near(float('-inf'), float('inf'), 0, 0)[0]


# ----------------------------------------------------------------------
# centre-in-shape test (method='center'): own geometry, float-radian theta
# ----------------------------------------------------------------------
def _margin(shape, p, theta, dx, dy):
    """signed margin (pixels, > 0 strictly inside) of points (dx, dy) relative to the shape centre"""
    c, s = math.cos(theta), math.sin(theta)
    u = dx * c + dy * s
    v = -dx * s + dy * c
    if shape == 'circle':
        return p[0] - np.hypot(dx, dy)
    if shape == 'ellipse':
        a, b = p
        return (1.0 - np.sqrt((u / a) ** 2 + (v / b) ** 2)) * min(a, b)
    w, h = p
    return np.minimum(w / 2.0 - np.abs(u), h / 2.0 - np.abs(v))


def center_weight_band(kind, p, theta, cx, cy, box, eps=1e-9):
    """(lo, hi) boolean box-shaped arrays: pixel centre certainly inside / possibly inside the aperture.
    `p` holds float lengths (r | r_in,r_out | a,b | a_in,a_out,b_in,b_out | w,h | w_in,w_out,h_in,h_out),
    `theta` is a float in radians. A 'center' mask must be 1 where lo, 0 where not hi."""
    ixmin, ixmax, iymin, iymax = box
    xs = np.arange(ixmin, ixmax, dtype=float) - cx
    ys = np.arange(iymin, iymax, dtype=float) - cy
    dx, dy = np.meshgrid(xs, ys)
    if kind == 'circle':
        m = _margin('circle', (p['r'],), 0.0, dx, dy)
        return m > eps, m > -eps
    if kind == 'ellipse':
        m = _margin('ellipse', (p['a'], p['b']), theta, dx, dy)
        return m > eps, m > -eps
    if kind == 'rect':
        m = _margin('rect', (p['w'], p['h']), theta, dx, dy)
        return m > eps, m > -eps
    if kind == 'circ_annulus':
        mo = _margin('circle', (p['r_out'],), 0.0, dx, dy)
        mi = _margin('circle', (p['r_in'],), 0.0, dx, dy)
    elif kind == 'ell_annulus':
        mo = _margin('ellipse', (p['a_out'], p['b_out']), theta, dx, dy)
        mi = _margin('ellipse', (p['a_in'], p['b_in']), theta, dx, dy)
    else:
        mo = _margin('rect', (p['w_out'], p['h_out']), theta, dx, dy)
        mi = _margin('rect', (p['w_in'], p['h_in']), theta, dx, dy)
    return (mo > eps) & ~(mi > -eps), (mo > -eps) & ~(mi > eps)


def selftest_center():
    lo, hi = center_weight_band('circle', {'r': 1.5}, 0.0, 2.0, 2.0, (0, 5, 0, 5))
    exp = np.zeros((5, 5), bool)
    exp[1:4, 1:4] = True                       # the 3x3 block: corners at distance sqrt(2) < 1.5
    assert np.array_equal(lo, exp) and np.array_equal(hi, exp), lo
    # rectangle 4 x 2 rotated by 90 deg -> 2 wide, 4 high: centres strictly inside |dx|<1, |dy|<2
    lo, hi = center_weight_band('rect', {'w': 4.0, 'h': 2.0}, math.pi / 2, 2.0, 2.0, (0, 5, 0, 5))
    exp = np.zeros((5, 5), bool)
    exp[1:4, 2] = True
    assert np.array_equal(lo, exp), lo
    assert hi.sum() > lo.sum()                 # the ties |dx| = 1, |dy| = 2 are in the band
    # ellipse a=2.2, b=0.6 at 0 rad: row of 5 centres; at 90 deg: column
    lo, _ = center_weight_band('ellipse', {'a': 2.2, 'b': 0.6}, 0.0, 2.0, 2.0, (0, 5, 0, 5))
    assert lo.sum() == 5 and lo[2].all()
    lo, _ = center_weight_band('ellipse', {'a': 2.2, 'b': 0.6}, math.radians(90), 2.0, 2.0, (0, 5, 0, 5))
    assert lo.sum() == 5 and lo[:, 2].all()
    lo, _ = center_weight_band('circ_annulus', {'r_in': 0.5, 'r_out': 1.2}, 0.0, 2.0, 2.0, (0, 5, 0, 5))
    assert lo.sum() == 4 and not lo[2, 2]
