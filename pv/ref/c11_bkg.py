"""C11 reference model for Background2D's box bookkeeping.

Independent of photutils.background.background_2d: the partition into boxes,
the per-box good-pixel vectors, the exclusion rule (exact rational
arithmetic), the IDW fill of excluded boxes, the median filter of the
low-resolution maps and the IDW upscaling are written directly from the
documentation. Trusted base: numpy, astropy.stats.SigmaClip (the user's clip
object applied to a 1-D vector) and the estimator objects the user chose.
"""
from __future__ import annotations

from fractions import Fraction

import numpy as np

IN, OUT, TIE, NEAR = 0, 1, 2, 3     # per-box status under the documented exclusion rule


def mesh_shape(shape, box):
    return -(-shape[0] // box[0]), -(-shape[1] // box[1])


def total_mask(data, mask, cov):
    """Masked = input mask | coverage mask | non-finite data (documented)."""
    m = np.zeros(data.shape, bool)
    if data.dtype.kind == 'f':
        m |= ~np.isfinite(data)
    if mask is not None:
        m |= np.asarray(mask, bool)
    if cov is not None:
        m |= np.asarray(cov, bool)
    return m


def work_array(data):
    """Floating array the reference statistics are computed on: integer images are judged against the
    float64 computation on the values they hold."""
    return data if data.dtype.kind == 'f' else data.astype(np.float64)


def box_vectors(dataf, tmask, box):
    """Yield (j, i, v): the good pixels of box (j, i) as a 1-D vector. Edge boxes
    contain only real pixels (the padded area does not exist here)."""
    ny, nx = dataf.shape
    by, bx = box
    my, mx = mesh_shape(dataf.shape, box)
    for j in range(my):
        for i in range(mx):
            sl = (slice(j * by, min((j + 1) * by, ny)), slice(i * bx, min((i + 1) * bx, nx)))
            yield j, i, dataf[sl][~tmask[sl]].copy()


def clip_vector(v, sigma_clip):
    """The user's SigmaClip applied to a 1-D vector of good pixels.

    astropy implements two evaluation paths with (rarely) different results: without
    ``axis`` a rejected pixel stays rejected; with ``axis`` (compiled path for the built-in
    cenfunc/stdfunc names) the iteration only determines the final bounds and every pixel
    inside the FINAL bounds is kept, so a pixel rejected early can come back when the
    bounds move. Background2D uses the axis form for regular boxes and the axis-free
    form for the corner box. Both are "the sigma-clipped pixels of the box"; the
    reference returns both, the monitor accepts either where they differ.
    """
    a = np.asarray(sigma_clip(v.copy(), masked=False, copy=True))
    a = a[~np.isnan(a)]
    b = np.asarray(sigma_clip(v.copy(), axis=0, masked=False, copy=True))
    b = b[~np.isnan(b)]
    if a.size == b.size and np.array_equal(np.sort(a), np.sort(b)):
        return a, None
    return a, b


def mesh_reference(dataf, tmask, box, sigma_clip, bkg_est, rms_est):
    """Per-box reference statistics. Returns dict with bkg, rms (float64, NaN where the box
    has no good pixel), ngood (after clipping), nraw (before clipping), the clipped (vecs)
    and raw (raws) vectors, and alts: {(j, i): (ngood, bkg, rms, vec)} for boxes where the
    two SigmaClip evaluation paths differ."""
    my, mx = mesh_shape(dataf.shape, box)
    bkg = np.full((my, mx), np.nan)
    rms = np.full((my, mx), np.nan)
    ngood = np.zeros((my, mx), np.int64)
    nraw = np.zeros((my, mx), np.int64)
    vecs, raws, alts = {}, {}, {}
    for j, i, v in box_vectors(dataf, tmask, box):
        nraw[j, i] = v.size
        raws[(j, i)] = v
        if v.size == 0:
            continue
        alt = None
        if sigma_clip is not None:
            v, alt = clip_vector(v, sigma_clip)
        ngood[j, i] = v.size
        vecs[(j, i)] = v
        if v.size:
            bkg[j, i] = float(bkg_est(v, axis=None))
            rms[j, i] = float(rms_est(v, axis=None))
        if alt is not None and alt.size:
            alts[(j, i)] = (alt.size, float(bkg_est(alt, axis=None)), float(rms_est(alt, axis=None)), alt)
    return dict(bkg=bkg, rms=rms, ngood=ngood, nraw=nraw, vecs=vecs, raws=raws, alts=alts)


def box_status(ngood, npix_box, p, near_eps=1e-9):
    """Documented rule: a box is excluded iff MORE THAN p percent of its (padded) box
    pixels are masked (clipped pixels and padding count as masked); completely masked
    boxes are always excluded. Exact rational arithmetic on the float p.

    IN / OUT / TIE (exactly p percent masked: documented = included) /
    NEAR (within near_eps of the boundary but not on it: either answer accepted).
    """
    ngood = np.asarray(ngood)
    out = np.empty(ngood.shape, np.int8)
    rhs = Fraction(float(p)) * int(npix_box)
    band = Fraction(near_eps) * 100 * int(npix_box)
    for idx, g in np.ndenumerate(ngood):
        g = int(g)
        if g == 0:
            out[idx] = OUT
            continue
        lhs = (int(npix_box) - g) * 100
        if lhs == rhs:
            out[idx] = TIE
        elif abs(lhs - rhs) <= band:
            out[idx] = NEAR
        elif lhs > rhs:
            out[idx] = OUT
        else:
            out[idx] = IN
    return out


_MAD_K = 1.482602218505602


def clip_min_margin(v, sc):
    """Smallest relative distance of any surviving pixel to a clipping bound over the
    iterations of the documented sigma-clipping loop (own loop, float64). Used only to
    recognise clip ties (a pixel within rounding of a bound) when the library and the
    reference disagree on a count."""
    x = np.asarray(v, float)
    x = x[np.isfinite(x)]
    margin = np.inf
    it = 0
    maxiters = sc.maxiters if sc.maxiters is not None else np.inf
    while x.size and it < maxiters:
        it += 1
        cen = sc.cenfunc
        if cen == 'median':
            c = np.median(x)
        elif cen == 'mean':
            c = np.mean(x)
        else:
            c = float(cen(x, axis=None))
        sf = sc.stdfunc
        if sf == 'std':
            s = np.std(x)
        elif sf == 'mad_std':
            s = _MAD_K * np.median(np.abs(x - np.median(x)))
        else:
            s = float(sf(x, axis=None))
        lo, hi = c - s * sc.sigma_lower, c + s * sc.sigma_upper
        scale = max(abs(lo), abs(hi), s, 1e-300)
        margin = min(margin, float(np.min(np.minimum(np.abs(x - lo), np.abs(x - hi)))) / scale)
        keep = (x >= lo) & (x <= hi)
        if keep.all():
            break
        x = x[keep]
    return margin


def idw_fill_reference(values, good, n_neighbors=10, power=1.0):
    """Fill of excluded boxes as documented in Background2D: inverse-distance weighting
    over the (at most) 10 nearest included boxes in mesh-index space, weight 1/d.
    Returns (filled float64 array, ambiguous mask) - a box is ambiguous when the choice of
    the 10 nearest is not unique (equidistant candidates at the cut)."""
    values = np.asarray(values, float)
    filled = values.copy()
    amb = np.zeros(values.shape, bool)
    gj, gi = np.nonzero(good)
    gv = values[gj, gi]
    for j, i in zip(*np.nonzero(~good)):
        d2 = (gj - j) ** 2 + (gi - i) ** 2
        order = np.argsort(d2, kind='stable')
        k = min(n_neighbors, order.size)
        if order.size > k and d2[order[k - 1]] == d2[order[k]]:
            amb[j, i] = True
        sel = order[:k]
        w = 1.0 / np.sqrt(d2[sel].astype(float)) ** power
        filled[j, i] = float(np.sum(w * gv[sel]) / np.sum(w))
    return filled, amb


def median_filter_reference(values, fsize, select=None):
    """Median of the in-image part of the fsize window centred on each mesh element
    (float64). `select`: only these elements are filtered, the others keep their value."""
    values = np.asarray(values)
    fy, fx = (fsize, fsize) if np.isscalar(fsize) else fsize
    hy, hx = fy // 2, fx // 2
    my, mx = values.shape
    out = values.astype(float).copy()
    for j in range(my):
        for i in range(mx):
            if select is not None and not select[j, i]:
                continue
            win = values[max(j - hy, 0):min(j + hy + 1, my), max(i - hx, 0):min(i + hx + 1, mx)]
            out[j, i] = float(np.median(win.astype(float)))
    return out


def idw_map_reference(mesh_values, good, shape, box, n_neighbors=10, power=1.0, reg=0.0,
                      conf_dist=1e-12):
    """BkgIDWInterpolator as documented: Shepard IDW over the included boxes, positioned at
    their box centres (index*box + (box-1)/2), evaluated at every pixel index.
    Returns (map float64, ambiguous pixel mask)."""
    by, bx = box
    gj, gi = np.nonzero(good)
    cy = gj * by + (by - 1) / 2.0
    cx = gi * bx + (bx - 1) / 2.0
    gv = np.asarray(mesh_values, float)[gj, gi]
    ny, nx = shape
    yy, xx = np.mgrid[0:ny, 0:nx]
    d2 = (yy.ravel()[:, None] - cy[None, :]) ** 2 + (xx.ravel()[:, None] - cx[None, :]) ** 2
    order = np.argsort(d2, axis=1, kind='stable')
    k = min(int(n_neighbors), gv.size)
    rows = np.arange(d2.shape[0])
    d2s = np.take_along_axis(d2, order, axis=1)
    amb = np.zeros(d2.shape[0], bool)
    if gv.size > k:
        amb = d2s[:, k - 1] == d2s[:, k]
    sel = order[:, :k]
    d = np.sqrt(d2s[:, :k])
    vals = gv[sel]
    if int(n_neighbors) == 1:
        out = vals[:, 0].copy()
    else:
        with np.errstate(divide='ignore', invalid='ignore'):
            w = 1.0 / (d ** power + reg)
            out = np.sum(w * vals, axis=1) / np.sum(w, axis=1)
        conf = d[:, 0] <= conf_dist
        out[conf] = vals[conf, 0]
    del rows
    return out.reshape(shape), amb.reshape(shape)


def trunc_band_ok(obs_int, ref_float, tol):
    """Integer-typed outputs: the library stores the float statistic in the integer input
    dtype. Which rounding is used is not documented (currently truncation); any integer
    between floor(x) and ceil(x) for some x within tol of the reference is accepted."""
    lo = np.floor(ref_float - tol)
    hi = np.ceil(ref_float + tol)
    return (obs_int >= lo) & (obs_int <= hi)


# ----------------------------------------------------------------------
def selftest():
    from astropy.stats import SigmaClip

    assert mesh_shape((7, 5), (3, 2)) == (3, 3)
    data = np.arange(35, dtype=float).reshape(7, 5)
    tm = np.zeros((7, 5), bool)
    tm[0, 0] = True
    vs = {(j, i): v for j, i, v in box_vectors(data, tm, (3, 2))}
    assert len(vs) == 9
    assert vs[(0, 0)].tolist() == [1.0, 5.0, 6.0, 10.0, 11.0]
    assert vs[(2, 2)].tolist() == [34.0]                       # corner box: 1 real pixel
    assert vs[(2, 0)].tolist() == [30.0, 31.0]                 # extra row: 1 x 2 real pixels
    assert vs[(0, 2)].tolist() == [4.0, 9.0, 14.0]             # extra column: 3 x 1

    class Mean:
        def __call__(self, v, axis=None):
            return np.mean(v)

    class Std:
        def __call__(self, v, axis=None):
            return np.std(v)

    # hand case with clipping: 24 zeros and one 100 in a 5x5 box -> 100 clipped, mean 0, 24 good
    d = np.zeros((5, 5))
    d[2, 2] = 100.0
    r = mesh_reference(d, np.zeros((5, 5), bool), (5, 5), SigmaClip(3.0, maxiters=10), Mean(), Std())
    bkg, rms, ngood, nraw = r['bkg'], r['rms'], r['ngood'], r['nraw']
    assert not r['alts']
    assert bkg.shape == (1, 1) and bkg[0, 0] == 0.0 and rms[0, 0] == 0.0
    assert ngood[0, 0] == 24 and nraw[0, 0] == 25
    # without clipping: mean 4
    r = mesh_reference(d, np.zeros((5, 5), bool), (5, 5), None, Mean(), Std())
    bkg, rms, ngood, nraw = r['bkg'], r['rms'], r['ngood'], r['nraw']
    assert bkg[0, 0] == 4.0 and ngood[0, 0] == 25
    # padded edge boxes contain only real pixels
    d = np.arange(12.0).reshape(3, 4)
    r = mesh_reference(d, np.zeros((3, 4), bool), (2, 3), None, Mean(), Std())
    bkg, rms, ngood, nraw = r['bkg'], r['rms'], r['ngood'], r['nraw']
    assert ngood.tolist() == [[6, 2], [3, 1]]
    assert bkg.tolist() == [[np.mean([0, 1, 2, 4, 5, 6]), np.mean([3, 7])], [9.0, 11.0]]

    # exclusion rule
    st = box_status(np.array([21, 20, 19, 25, 0]), 25, 20.0)
    assert st.tolist() == [IN, TIE, OUT, IN, OUT]
    assert box_status(np.array([25, 24]), 25, 0.0).tolist() == [TIE, OUT]      # clean box at p=0 stays
    assert box_status(np.array([1, 0]), 25, 100.0).tolist() == [IN, OUT]
    assert box_status(np.array([2]), 3, 100.0 / 3.0).tolist() == [NEAR]        # 33.33..% is not exact
    assert box_status(np.array([9, 6]), 15, 40.0).tolist() == [TIE, OUT]

    # IDW fill
    v = np.array([[1.0, np.nan, 3.0]])
    f, amb = idw_fill_reference(np.nan_to_num(v), ~np.isnan(v))
    assert f[0, 1] == 2.0 and not amb.any()
    v = np.array([[1.0, np.nan, np.nan, 4.0]])
    f, amb = idw_fill_reference(np.nan_to_num(v), ~np.isnan(v))
    assert abs(f[0, 1] - 2.0) < 1e-15 and abs(f[0, 2] - 3.0) < 1e-15
    g = np.ones((5, 5), bool)
    g[2, 2] = False
    f, amb = idw_fill_reference(np.where(g, 7.0, 0.0), g)
    assert amb[2, 2] and abs(f[2, 2] - 7.0) < 1e-14           # 24 candidates, 10th/11th equidistant
    # median filter
    m = np.arange(1.0, 10.0).reshape(3, 3)
    f = median_filter_reference(m, 3)
    assert f[0, 0] == 3.0 and f[1, 1] == 5.0 and f[2, 2] == 7.0 and f[0, 1] == 3.5
    f = median_filter_reference(m, (1, 3))
    assert f[0].tolist() == [1.5, 2.0, 2.5]
    sel = np.zeros((3, 3), bool)
    sel[1, 1] = True
    f = median_filter_reference(m + np.eye(3) * 10, 3, sel)
    assert f[1, 1] == 7.0 and f[0, 0] == 11.0
    # IDW map: 1x2 mesh, box 2x2, image 2x4: centres at x=0.5 and 2.5, y=0.5
    mp, amb = idw_map_reference(np.array([[1.0, 3.0]]), np.ones((1, 2), bool), (2, 4), (2, 2))
    d0, d1 = np.hypot(0.5, 0.5), np.hypot(0.5, 2.5)
    assert abs(mp[0, 0] - (1 / d0 + 3 / d1) / (1 / d0 + 1 / d1)) < 1e-15
    assert abs(mp[0, 1] - 2.0 + (mp[0, 2] - 2.0)) < 1e-15 and not amb.any()
    # centre on a pixel (odd box): value reproduced exactly
    mp, amb = idw_map_reference(np.array([[1.0, 3.0]]), np.ones((1, 2), bool), (3, 6), (3, 3))
    assert mp[1, 1] == 1.0 and mp[1, 4] == 3.0
    # clip margin: a pixel exactly on a bound
    sc = SigmaClip(sigma=1.0, maxiters=1)
    assert clip_min_margin(np.array([-1.0, 1.0, -1.0, 1.0]), sc) == 0.0
    assert clip_min_margin(np.array([0.0, 0.1, -0.1, 5.0]), SigmaClip(3.0)) > 1e-3
    # integer band
    assert trunc_band_ok(np.array([2, 3, 2]), np.array([2.9999999, 2.9999999, 2.5]), 1e-5).tolist() \
        == [True, True, True]
    assert trunc_band_ok(np.array([3, 4, 1]), np.array([2.5, 2.5, 2.5]), 1e-5).tolist() == [True, False, False]
