"""C17 reference helpers: definitions of the centroid functions' documented
semantics and input builders.  Nothing here imports photutils.

* com_reference        : sum(x*d)/sum(d) over unmasked finite pixels (math.fsum, any ndim)
* quadratic_surface    : exactly quadratic image with a known vertex (maximum)
* quad_start_pixel     : the documented starting pixel of centroid_quadratic
* quad_box             : the documented fit box (fit_boxsize centred on the start pixel, clipped)
* design_rank          : rank of the 6-term quadratic design matrix on a set of pixels
* symmetric_source     : point-symmetric peaked image about a chosen centre
* cutout_reference     : the cutout of centroid_sources from astropy overlap_slices (trusted)
"""
from __future__ import annotations

import math

import numpy as np
from astropy.nddata.utils import overlap_slices


# ----------------------------------------------------------------------
# centroid_com
# ----------------------------------------------------------------------
def com_reference(data, mask=None):
    """Returns (centroid in pixel (x, y, ...) order, condition number).

    centroid_k = fsum(i_k * d) / fsum(d) over pixels that are unmasked and
    finite.  cond = fsum(|d|)/|fsum(d)| (amplification of rounding errors of
    any floating-point evaluation of the same ratio).  Zero total -> NaNs.
    """
    d = np.array(data, dtype=float)
    good = np.isfinite(d)
    if mask is not None:
        good &= ~np.asarray(mask, dtype=bool)
    idx = np.nonzero(good)
    vals = d[idx]
    total = math.fsum(vals.tolist())
    if total == 0.0 or vals.size == 0:
        return np.full(d.ndim, np.nan), float('inf')
    cen = []
    for axis in range(d.ndim):
        cen.append(math.fsum((idx[axis] * vals).tolist()) / total)
    cond = math.fsum(np.abs(vals).tolist()) / abs(total)
    return np.array(cen[::-1]), cond


# ----------------------------------------------------------------------
# centroid_quadratic
# ----------------------------------------------------------------------
def quadratic_surface(shape, x0, y0, amp, lam1, lam2, phi):
    """amp - [a (x-x0)^2 + 2 b (x-x0)(y-y0) + c (y-y0)^2] with a positive
    definite form of eigenvalues lam1, lam2 > 0 rotated by phi.  The unique
    maximum (vertex) is (x0, y0)."""
    ny, nx = shape
    yy, xx = np.mgrid[0:ny, 0:nx].astype(float)
    cp, sp = math.cos(phi), math.sin(phi)
    a = lam1 * cp * cp + lam2 * sp * sp
    b = (lam1 - lam2) * cp * sp
    c = lam1 * sp * sp + lam2 * cp * cp
    dx, dy = xx - x0, yy - y0
    return amp - (a * dx * dx + 2 * b * dx * dy + c * dy * dy)


def round_half_away(v):
    """Documented rounding of xpeak/ypeak ("py2intround")."""
    return int(math.floor(v + 0.5)) if v >= 0 else int(math.ceil(v - 0.5))


def _argmax_unique(vals, good):
    """(index, gap) of the maximum of vals over `good`; gap = max - second max
    (inf when only one good pixel); index None when no good pixel."""
    if not good.any():
        return None, 0.0
    v = np.where(good, vals, -np.inf)
    flat = v.ravel()
    i = int(np.argmax(flat))
    top = flat[i]
    rest = np.delete(flat, i)
    rest = rest[np.isfinite(rest)]
    gap = float(top - rest.max()) if rest.size else float('inf')
    return np.unravel_index(i, v.shape), gap


def trim_box(shape, size, center):
    """Box of `size` (ny, nx; odd) centred on integer pixel `center` (y, x),
    clipped to the array: (y0, y1, x0, x1), half-open."""
    ny, nx = shape
    hy, hx = size[0] // 2, size[1] // 2
    cy, cx = center
    return (max(0, cy - hy), min(ny, cy + hy + 1), max(0, cx - hx), min(nx, cx + hx + 1))


def quad_start_pixel(data, mask=None, xpeak=None, ypeak=None, search_boxsize=None):
    """Documented start pixel (y, x) of centroid_quadratic and the gap between
    the best and second-best candidate (a zero gap = tie: start pixel is
    ambiguous)."""
    d = np.asarray(data, dtype=float)
    good = np.isfinite(d)
    if mask is not None:
        good &= ~np.asarray(mask, dtype=bool)
    if xpeak is None or ypeak is None:
        return _argmax_unique(d, good)
    cy, cx = round_half_away(ypeak), round_half_away(xpeak)
    if search_boxsize is None:
        return (cy, cx), float('inf')
    sb = (search_boxsize, search_boxsize) if np.isscalar(search_boxsize) else tuple(search_boxsize)
    sb = (min(sb[0], d.shape[0]), min(sb[1], d.shape[1]))
    y0, y1, x0, x1 = trim_box(d.shape, sb, (cy, cx))
    sub, subgood = d[y0:y1, x0:x1], good[y0:y1, x0:x1]
    idx, gap = _argmax_unique(sub, subgood)
    if idx is None:
        return None, 0.0
    return (idx[0] + y0, idx[1] + x0), gap


def design_rank(ys, xs):
    """Numerical rank of [1, x, y, xy, x^2, y^2] at the given pixels
    (coordinates centred first, which does not change the rank)."""
    ys = np.asarray(ys, dtype=float)
    xs = np.asarray(xs, dtype=float)
    if ys.size < 6:
        return int(min(ys.size, 6)) if ys.size < 6 else 6
    x = xs - xs.mean()
    y = ys - ys.mean()
    a = np.vstack((np.ones_like(x), x, y, x * y, x * x, y * y)).T
    s = np.linalg.svd(a, compute_uv=False)
    return int(np.sum(s > 1e-6 * s[0]))


def box_rank(data, mask, box):
    """Rank of the quadratic design on the usable pixels of box (y0,y1,x0,x1)."""
    d = np.asarray(data, dtype=float)
    y0, y1, x0, x1 = box
    good = np.isfinite(d[y0:y1, x0:x1])
    if mask is not None:
        good &= ~np.asarray(mask, dtype=bool)[y0:y1, x0:x1]
    ys, xs = np.nonzero(good)
    if ys.size < 6:
        return int(ys.size) if ys.size < 6 else 6
    return design_rank(ys + y0, xs + x0)


# ----------------------------------------------------------------------
# point-symmetric sources
# ----------------------------------------------------------------------
def symmetric_source(rng, shape, cx, cy, kind='gauss', perturb=0.05):
    """Image f with f(c + d) == f(c - d) *exactly* for every pixel pair that
    lies inside the array; peaked at c = (cx, cy) (2*cx, 2*cy integers).

    Built from a function of the offset d evaluated as g(d) + g(-d) so that
    the symmetry is exact in floating point; plus an exactly symmetrised
    random perturbation."""
    ny, nx = shape
    yy, xx = np.mgrid[0:ny, 0:nx].astype(float)
    dx, dy = xx - cx, yy - cy
    s1 = float(rng.uniform(0.9, 2.5))
    s2 = s1 * float(rng.uniform(0.6, 1.0))
    phi = float(rng.uniform(0, np.pi))
    cp, sp = math.cos(phi), math.sin(phi)
    a = cp * cp / (2 * s1 * s1) + sp * sp / (2 * s2 * s2)
    b = cp * sp * (1 / (2 * s1 * s1) - 1 / (2 * s2 * s2))
    c = sp * sp / (2 * s1 * s1) + cp * cp / (2 * s2 * s2)
    amp = float(rng.uniform(5, 500))

    def q(u, v):
        return a * u * u + 2 * b * u * v + c * v * v

    if kind == 'gauss':
        f = 0.5 * amp * (np.exp(-q(dx, dy)) + np.exp(-q(-dx, -dy)))
    else:  # moffat-like
        f = 0.5 * amp * ((1 + q(dx, dy)) ** -2.5 + (1 + q(-dx, -dy)) ** -2.5)
    if perturb:
        # symmetrise a random field about c: pixel (y, x) <-> (2cy - y, 2cx - x)
        r = rng.uniform(-1, 1, size=shape) * perturb * amp * 0.2
        ry = (2 * cy - np.arange(ny)).round().astype(int)
        rx = (2 * cx - np.arange(nx)).round().astype(int)
        oky = (ry >= 0) & (ry < ny)
        okx = (rx >= 0) & (rx < nx)
        mirror = np.zeros(shape)
        has = np.zeros(shape, bool)
        iy, ix = np.nonzero(oky[:, None] & okx[None, :])
        mirror[iy, ix] = r[ry[iy], rx[ix]]
        has[iy, ix] = True
        # envelope keeps the perturbation local to the source and symmetric
        env = 0.5 * (np.exp(-0.5 * q(dx, dy)) + np.exp(-0.5 * q(-dx, -dy)))
        pert = np.where(has, 0.5 * (r + mirror), 0.0) * env
        f = f + pert
    return f


def mirror_index(shape, cx, cy):
    """(iy, ix, has): index arrays of every pixel's mirror image about
    (cx, cy) and whether that mirror lies inside the array."""
    ny, nx = shape
    ry = np.round(2 * cy - np.arange(ny)).astype(int)
    rx = np.round(2 * cx - np.arange(nx)).astype(int)
    has = ((ry >= 0) & (ry < ny))[:, None] & ((rx >= 0) & (rx < nx))[None, :]
    iy = np.clip(ry, 0, ny - 1)[:, None] * np.ones((1, nx), int)
    ix = np.ones((ny, 1), int) * np.clip(rx, 0, nx - 1)[None, :]
    return iy, ix, has


def symmetrize_mask(mask, cx, cy):
    """mask | mirror(mask) about (cx, cy) (pixels without mirror keep their value)."""
    iy, ix, has = mirror_index(mask.shape, cx, cy)
    return mask | (mask[iy, ix] & has)


def symmetrize_field(arr, cx, cy):
    """0.5*(a + mirror(a)) exactly symmetric where the mirror exists."""
    iy, ix, has = mirror_index(arr.shape, cx, cy)
    return np.where(has, 0.5 * (arr + arr[iy, ix]), arr)


def is_point_symmetric(arr, cx, cy, good=None):
    """Exact check: every in-array pixel's mirror image about (cx, cy) is
    in the array, equal in value (and in `good`), unless both are zero/bad."""
    arr = np.asarray(arr, dtype=float)
    ny, nx = arr.shape
    ry = np.round(2 * cy - np.arange(ny)).astype(int)
    rx = np.round(2 * cx - np.arange(nx)).astype(int)
    if good is None:
        good = np.ones(arr.shape, bool)
    for y in range(ny):
        for x in range(nx):
            if not good[y, x] or arr[y, x] == 0:
                continue
            my, mx = ry[y], rx[x]
            if not (0 <= my < ny and 0 <= mx < nx):
                return False
            if not good[my, mx] or arr[my, mx] != arr[y, x]:
                return False
    return True


# ----------------------------------------------------------------------
# centroid_sources
# ----------------------------------------------------------------------
def cutout_reference(shape, footprint, xpos, ypos, mask=None):
    """Documented cutout of centroid_sources for one position: the
    footprint-shaped box centred on (ypos, xpos), clipped to the image
    (astropy overlap_slices, 'partial').  Returns (slices_large,
    mask_cutout) with mask_cutout = mask[slices] | ~footprint[overlap]."""
    fp = np.asarray(footprint, dtype=bool)
    slc_lg, slc_sm = overlap_slices(shape, fp.shape, (ypos, xpos), mode='partial')
    m = ~fp[slc_sm]
    if mask is not None:
        m = m | np.asarray(mask, dtype=bool)[slc_lg]
    return slc_lg, m


# ----------------------------------------------------------------------
def selftest():
    # com: hand case
    d = np.array([[0., 1., 0.], [0., 0., 0.], [0., 3., 0.]])
    c, k = com_reference(d)
    assert np.allclose(c, [1.0, 1.5]) and k == 1.0, c
    c, _ = com_reference(d, mask=np.array([[0, 0, 0], [0, 0, 0], [0, 1, 0]], bool))
    assert np.allclose(c, [1.0, 0.0])
    d2 = d.copy()
    d2[0, 0] = np.nan
    d2[2, 2] = np.inf
    c, _ = com_reference(d2)
    assert np.allclose(c, [1.0, 1.5])
    c, _ = com_reference(np.zeros((3, 3)))
    assert np.all(np.isnan(c))
    c, _ = com_reference(np.array([1., 0., 1., 2.]))        # 1-D
    assert np.allclose(c, [(0 + 2 + 6) / 4.0])
    c, _ = com_reference(np.ones((2, 3, 4)))                # 3-D: (x, y, z)
    assert np.allclose(c, [1.5, 1.0, 0.5])
    # quadratic surface: vertex is the maximum, second differences constant
    s = quadratic_surface((9, 11), 4.3, 5.1, 10.0, 0.5, 1.5, 0.7)
    assert s.max() < 10.0 and np.unravel_index(np.argmax(s), s.shape) == (5, 4)
    assert np.allclose(np.diff(s, 3, axis=0), 0, atol=1e-9) and np.allclose(np.diff(s, 3, axis=1), 0, atol=1e-9)
    # own least-squares fit recovers the vertex (independent of photutils)
    yy, xx = np.mgrid[3:8, 2:7]
    x, y = xx.ravel().astype(float), yy.ravel().astype(float)
    A = np.vstack((np.ones_like(x), x, y, x * y, x * x, y * y)).T
    cf = np.linalg.lstsq(A, s[3:8, 2:7].ravel(), rcond=None)[0]
    det = 4 * cf[4] * cf[5] - cf[3] ** 2
    xm = (cf[2] * cf[3] - 2 * cf[5] * cf[1]) / det
    ym = (cf[1] * cf[3] - 2 * cf[4] * cf[2]) / det
    assert abs(xm - 4.3) < 1e-9 and abs(ym - 5.1) < 1e-9
    # rounding rule
    assert [round_half_away(v) for v in (0.5, 1.5, 2.5, 2.49, -0.5)] == [1, 2, 3, 2, -1]
    # start pixel / boxes
    (py, px), gap = quad_start_pixel(s)
    assert (py, px) == (5, 4) and gap > 0
    assert trim_box((9, 11), (5, 5), (1, 10)) == (0, 4, 8, 11)
    assert design_rank([0, 0, 0, 1, 1, 1, 2, 2, 2], [0, 1, 2, 0, 1, 2, 0, 1, 2]) == 6
    assert design_rank([0, 1, 2, 3, 4, 5, 6], [0, 1, 2, 3, 4, 5, 6]) < 6          # collinear
    # symmetric source is exactly symmetric
    rng = np.random.default_rng(0)
    for cx, cy in ((5.0, 4.0), (5.5, 4.0), (4.5, 3.5)):
        f = symmetric_source(rng, (9, 12), cx, cy)
        ny, nx = f.shape
        for yv in range(ny):
            for xv in range(nx):
                my, mx = int(round(2 * cy - yv)), int(round(2 * cx - xv))
                if 0 <= my < ny and 0 <= mx < nx:
                    assert f[yv, xv] == f[my, mx]
    f = symmetric_source(rng, (9, 9), 4.0, 4.0)
    assert is_point_symmetric(f, 4.0, 4.0)
    # cutout reference
    slc, m = cutout_reference((20, 30), np.ones((5, 7), bool), 1.0, 18.0)
    assert slc == (slice(16, 20), slice(0, 5)) and m.shape == (4, 5) and not m.any()
