#!/usr/bin/env python3
"""tools/kf_fix.py <commit> <finding-id-prefix> [<prefix>...]
Move known-finding entries (by id prefix) from `findings` to `fixed` in known_findings.d/*.json."""
import glob, json, sys
commit, prefixes = sys.argv[1], sys.argv[2:]
for path in sorted(glob.glob('/verif/known_findings.d/*.json')) + ['/verif/known_findings.json']:
    d = json.load(open(path))
    keep, moved = [], []
    for f in d.get('findings', []):
        (moved if any(f['id'].startswith(p) for p in prefixes) else keep).append(f)
    if not moved:
        continue
    d['findings'] = keep
    fx = d.setdefault('fixed', [])
    for f in moved:
        fx.append(f"fixed: property={f['property']} {commit} {f['text']} [was finding {f['id']}]")
    json.dump(d, open(path, 'w'), indent=1)
    print(path, 'moved', [f['id'] for f in moved])
