#!/bin/bash
# tools/confirm_seed.sh <name>   (e.g. C04_A) : independently confirm a seeded change from /tmp/seed/out/<name>:
# demo passes on clean HEAD, fails with the patch, repository tests show no newly failing test.
# On success copies it to /verif/seeded/<name>/ with a `confirmed` record in meta.json.
name="$1"; src=/tmp/seed/out/$name; wt=/tmp/confirm_$name
[ -f $src/patch.diff ] || { echo "no $src/patch.diff"; exit 2; }
/verif/tools/mkworktree.sh $wt >/dev/null 2>&1 || exit 2
cd $wt
/venv/bin/python $src/demo.py > /tmp/confirm_$name.clean.log 2>&1; rc_clean=$?
git apply $src/patch.diff || { echo "patch does not apply"; git -C /repo worktree remove --force $wt; exit 2; }
/venv/bin/python $src/demo.py > /tmp/confirm_$name.patched.log 2>&1; rc_patched=$?
grep -q "$wt" <(/venv/bin/python -c "import photutils;print(photutils.__file__)") || echo "WARNING: import path not worktree"
/venv/bin/python -m pytest -q -p no:cacheprovider --timeout=900 --continue-on-collection-errors -n ${NPROC:-6} --color=no -rfE 2>&1 | tee /tmp/confirm_$name.tests.log | grep -E "^(FAILED|ERROR) " | sed 's/ - .*//' | sort > /tmp/confirm_$name.failed.txt
summary=$(tail -1 /tmp/confirm_$name.tests.log)
newfail=$(comm -13 /tmp/seed/baseline_failed.txt /tmp/confirm_$name.failed.txt | tr '\n' ' ')
echo "$name: demo clean rc=$rc_clean patched rc=$rc_patched; tests: $summary; newly failing: [$newfail]"
cd /; git -C /repo worktree remove --force $wt
if [ $rc_clean -eq 0 ] && [ $rc_patched -ne 0 ] && [ -z "$newfail" ]; then
  mkdir -p /verif/seeded/$name
  cp $src/patch.diff $src/demo.py /verif/seeded/$name/
  /venv/bin/python - "$name" "$summary" <<'PY'
import json, sys
name, summary = sys.argv[1], sys.argv[2]
try:
    meta = json.load(open(f'/tmp/seed/out/{name}/meta.json'))
except Exception as e:
    meta = {'property': name.split('_')[0], 'note': f'agent meta.json unreadable: {e}'}
meta['confirmed'] = {'by': 'tools/confirm_seed.sh in a scratch worktree', 'demo_clean_exit': 0, 'demo_patched_exit': 'non-zero',
                     'repo_tests_with_patch': summary, 'newly_failing_vs_baseline': []}
json.dump(meta, open(f'/verif/seeded/{name}/meta.json', 'w'), indent=1)
PY
  echo "KEPT /verif/seeded/$name"
else
  echo "REJECTED $name"
fi
