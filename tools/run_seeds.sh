#!/bin/bash
# tools/run_seeds.sh [name ...] : run each seeded change against the check of its property (quick tier); log to seeded/<name>/result.txt
cd /verif
names="$@"; [ -z "$names" ] && names=$(ls seeded)
for n in $names; do
  pid=${n%%_*}
  out=$(tools/try_patch.py seeded/$n/patch.diff $pid 2>&1 | cut -c1-700)
  echo "$n => $out"
  echo "$out" > seeded/$n/result.txt
done
