"""Per-check MANIFEST texts."""
CHECKS = {
 'C04': dict(
    text='Reference-model monitor: every generated image is labelled by an independent BFS implementation of the documented semantics and compared exactly (label arrays, None/warning, labels/slices/areas vs fresh SegmentationImage and vs numpy definitions, detect_threshold formula). Holds on the executed cases only.',
    note='Trusted: numpy, the harness BFS (self-tested on hand-computed cases), astropy SigmaClip for detect_threshold defaults. Inputs limited to <=24x24 images.',
    technique='runtime reference-model monitor (independent BFS oracle) over generated hostile inputs'),
}
NOT_APPLICABLE = {}
