"""Per-check MANIFEST texts. ENABLED lists the properties whose check is registered."""
import os

_T = {
 'C01': dict(
    technique='runtime reference-model monitor (independent polygon/disk overlap oracle, sub-pixel sampling with tie bands, brute-force index sets) on the recompiled kernels; ASan+UBSan build of the kernels in the thorough tier; executable .pyx source twin',
    text='Every generated aperture (6 classes, 3 methods, hostile centres/sizes/angles) is masked by the real code running on kernels recompiled from the current generated C, and each pixel weight, the box, the area and the overlap slices are compared with an independent geometric oracle; the thorough tier additionally runs the workload under AddressSanitizer/UBSan. Holds on the executed masks only.',
    note='Trusted: numpy, shapely (rectangles), the oracle (self-tested against analytic areas and supersampling). .pyx edits cannot be compiled here (no Cython): they are executed only through the de-typed source twin on small masks. Sizes <= 400 px.'),
 'C02': dict(
    technique='runtime reference-model + relation monitors (own full-frame weight-map arithmetic; one-at-a-time, linearity, garbage-in-masked-pixels, sky-vs-pixel relations)',
    text='aperture_photometry / do_photometry / area_overlap outputs are compared with sums computed by the harness from the aperture mask weights by its own index arithmetic, plus metamorphic relations, over generated images, masks, errors, positions on/over every edge and all call forms.',
    note='Trusted: numpy, the mask weights themselves (judged by C01), astropy WCS/NDData. Undistorted TAN WCS only.'),
 'C03': dict(
    technique='runtime relation (metamorphic) monitor: integer translation into a zero-padded canvas and axis transposition over a table of public entry points',
    text='Each scene is measured by the real entry points before and after embedding at an integer offset (dx != dy) and after transposition; positions must move by exactly the offset, everything else must be unchanged within rounding; rows whose footprint leaves the original frame are excluded and counted.',
    note='Trusted: numpy. Only footprints inside the original frame are judged (as the property states). Tolerances measured on the unchanged tree.'),
 'C04': dict(
    technique='runtime reference-model monitor (independent BFS oracle) over generated hostile inputs',
    text='Reference-model monitor: every generated image is labelled by an independent BFS implementation of the documented semantics and compared exactly (label arrays, None/warning, labels/slices/areas vs fresh SegmentationImage and vs numpy definitions, detect_threshold formula). Holds on the executed cases only.',
    note='Trusted: numpy, the harness BFS (self-tested on hand-computed cases), astropy SigmaClip for detect_threshold defaults. Inputs limited to <=24x24 images.'),
 'C05': dict(
    technique='runtime history monitor with semantic model + fresh-object oracle (random mutator/read sequences on live SegmentationImage objects)',
    text='Random histories of public mutators interleaved with attribute reads are driven on one live object; after every step the array is compared with a numpy model of the documented effect and every derived attribute with a freshly constructed object and with direct numpy definitions (exact).',
    note='Trusted: numpy, shapely/rasterio only as used by the library under test; histories of length <= 8 on arrays <= 14x14 of all integer dtypes, incl. detect/deblend outputs.'),
 'C06': dict(
    technique='runtime refinement monitors + schedule control (virtual pool enumerating completion orders through the real merge code; real spawn pools with injected per-task delays and recorded completion orders)',
    text='Refinement invariants are asserted on every deblend result; the parent-side merge is executed under every completion order for <=4 tasks (sampled beyond) through an in-process pool with pickle round-trips, and under real spawn pools with injected delays; every schedule must be bit-identical to nproc=1.',
    note='Trusted: numpy, pickle. Orders for >4 tasks sampled; real pools give tens of observed orders; OS-level pool failures not modelled.'),
 'C07': dict(
    technique='runtime reference-model monitor (per-label definitions in numpy/fsum) + relation monitors (outside-footprint garbage, label renumbering, row reordering, detection-catalogue delegation) + icontract postcondition on the neighbour-mirroring helper',
    text='Every listed SourceCatalog quantity is recomputed per label from its definition on the unmasked finite pixels and compared (exact for integer/bbox/min/max quantities, 1e-10 scaled for sums/moments), and row independence is checked by relations, over hostile segmentation maps.',
    note='Trusted: numpy, astropy WCS. local_background value itself, Kron/windowed quantities are only covered through relations.'),
 'C08': dict(
    technique='runtime history/relation monitor: indexing-commutation on twin catalogues with random pre-evaluated cache content, and parent/child independence histories against a registry model',
    text='For twin catalogues built from copies of the same inputs, every public property read on an indexed child (15 index forms, random cache content, scalar children) is compared exactly with the indexed parent value; random extra-property/photometry operations on one side must leave the other unchanged.',
    note='Trusted: numpy; structural comparator self-tested. Empty selections not generated.'),
 'C09': dict(
    technique='runtime history monitor with fresh-object oracle over 7 object families (random read/assign/call interleavings; every value compared with a fresh instance making only that request)',
    text='Random interleavings of reads, setter assignments and calls are driven on one instance per family (Background2D, apertures, profiles, PSF photometry, star finders, Ellipse, GriddedPSFModel); each returned value must equal exactly what a fresh object returns for that single request and no request may raise because of earlier ones.',
    note='Trusted: numpy; the fresh object as oracle (so a defect that also affects fresh objects is out of scope here and belongs to the other properties).'),
 'C10': dict(
    technique='runtime write-sentinel monitor (deep snapshots of caller-owned arguments around every outermost public call and later property reads), generated entry-point workload + the repository test-suite as workload in the thorough tier',
    text='All exported functions, constructors, methods and (lazy) properties are wrapped; caller-owned arrays, masked arrays, Quantities, tables, models, NDData, apertures and segmentation images are snapshotted at entry and compared at exit; a generated workload crosses entry points x representations x data conditions; thorough additionally replays the repository tests under the sentinel.',
    note='Trusted: the snapshot digests. Covers the entry points in the table and those reached by the suite; mutation undone before return is invisible.'),
 'C11': dict(
    technique='runtime reference-model monitor (own box partition + the user-chosen estimator on clipped box pixels) + relation monitors (mask-blindness, shift/scale equivariance, constant image, bottleneck on/off configuration)',
    text='Low-resolution meshes are recomputed by the harness box by box and compared; full maps are checked for shape, finiteness, fill_value, mask-blindness, equivariance and range; every case is evaluated with and without the bottleneck accelerator.',
    note='Trusted: numpy, astropy SigmaClip, the estimator classes themselves (the property takes "the chosen estimator" as given).'),
 'C12': dict(
    technique='runtime recovery monitor on rendered noise-free scenes + exact bookkeeping oracles (own union-find grouping, npixfit/flags definitions, permutation and scaling relations)',
    text='Noise-free scenes rendered from the fitted model are photometered from perturbed starts; recovered x, y, flux and residuals are compared with truth within tolerances calibrated on the unchanged tree, and ids/order/groups/npixfit/flags/fixed parameters/Iterative(maxiters=1) with exact oracles.',
    note='Trusted: numpy, astropy fitting as used by the library; tolerances are measurement-based (isolated vs grouped).'),
 'C13': dict(
    technique='runtime reference-model monitor (lattice sums, adaptive quadrature, own bilinear/spline-free sample-point oracle) + history monitor for GriddedPSFModel',
    text='PRF lattice sums and PSF integrals are compared with the flux, models with each other under the stated identities, ImagePSF with its samples, GriddedPSFModel with the blend of its reference ePSFs under random evaluation/copy histories.',
    note='Trusted: numpy, scipy.integrate/special.'),
 'C14': dict(
    technique='runtime three-valued reference-model monitor for find_peaks + relation monitors for the star finders (bounded table = filtered wide-open table, brightest, xycoords, ids, finiteness)',
    text='find_peaks output is judged per pixel by must-include / must-exclude / either predicates computed by the harness; star finders are judged by relations between differently configured runs and by harness-recomputed convolution peaks.',
    note='Trusted: numpy, scipy.ndimage convolution. Documentation-silent cases accepted either way and counted.'),
 'C15': dict(
    technique='runtime relation monitor: same numbers in different representations (dtype, byte order, layout, MaskedArray, NDData, Quantity) across a table of public entry points',
    text='Each entry point is run on a float64 baseline and on representation variants of the same numbers; outputs must agree (1e-9 value-preserving, 2e-4 precision-changing), units must be carried, mixed unit-ful/unit-less input must be rejected, and no variant may fail where the baseline succeeds.',
    note='Trusted: numpy/astropy containers. Entry points limited to the table.'),
 'C16': dict(
    technique='runtime reference-model monitor (own pixel-set statistics with numpy/astropy.stats) + equality with aperture_photometry/area_overlap',
    text='Every ApertureStats property is recomputed from the pixel set defined by the statement (centre-in-aperture, unmasked, finite, sigma-clipped, background-subtracted) and compared; sums are compared with aperture photometry; NaN rules are checked for no-overlap/no-unmasked-pixel apertures.',
    note='Trusted: numpy, astropy.stats, the aperture masks (C01).'),
 'C17': dict(
    technique='runtime reference-model + relation monitors (definition of centre of mass, exact quadratic vertices, symmetry, flips/transposition/scaling, per-source independence of centroid_sources)',
    text='Centroid functions are compared with definitions on constructed inputs and under symmetry relations; centroid_sources is compared exactly with the centroid function applied to each documented cutout, under permutations and sub-lists of the positions.',
    note='Trusted: numpy, astropy overlap_slices.'),
 'C18': dict(
    technique='runtime reference-model monitor (own superposition renderer) + relation monitors (row order, vstack additivity, off-image rows, units, residual)',
    text='make_model_image and the PSF-photometry model/residual images are compared with the harness sum over rows on clipped windows and checked for order invariance, additivity, unit carrying and input immutability.',
    note='Trusted: numpy, astropy discretize_model/overlap_slices.'),
 'C19': dict(
    technique='runtime reference-model monitor (aperture photometry differences) + history monitor for normalize/unnormalize/first-read interleavings + inverse relation of the encircled-energy interpolators',
    text='Profiles are recomputed from circular-aperture sums and overlap areas; normalisation histories must restore every array; calc_ee_at_radius and calc_radius_at_ee must invert each other on the monotone part.',
    note='Trusted: numpy, CircularAperture photometry (judged by C01/C02).'),
 'C20': dict(
    technique='runtime recovery monitor on synthetic noise-free elliptical galaxies + exact monitors (sorted sma, fixed parameters, scalar vs vector to_polar, image untouched)',
    text='Ellipse.fit_image is run on generated galaxies with known geometry; well-sampled isophotes must recover centre, ellipticity, PA and intensity within bands calibrated on the unchanged tree; structural invariants are exact.',
    note='Trusted: numpy. Bands are measurement-based; fits that return no isophotes are skipped and counted.'),
}

_V = os.path.dirname(os.path.dirname(os.path.abspath(__file__)))
DISABLED = set()
CHECKS = {k: v for k, v in _T.items()
          if os.path.exists(os.path.join(_V, 'pv', 'checks', k.lower() + '.py')) and k not in DISABLED}
NOT_APPLICABLE = {}
