#!/bin/bash
# tools/mkworktree.sh <dir>  : scratch git worktree of /repo HEAD (outside /repo and /verif) that is importable:
# copies the untracked generated files (.c, .so, version.py) so `cd <dir> && /venv/bin/python -m pytest ...`
# and `PV_REPO=<dir> ./check CNN` use the scratch copy instead of /repo.
set -e
d="$1"; [ -n "$d" ] || { echo "usage: $0 <dir>"; exit 2; }
case "$d" in /repo*|/verif*) echo "refusing: $d"; exit 2;; esac
git -C /repo worktree add --detach "$d" HEAD >/dev/null
cd /repo
for f in photutils/version.py photutils/_compiler.c photutils/compiler_version*.so photutils/geometry/*.c photutils/geometry/*.so; do
  [ -e "$f" ] && cp -p "$f" "$d/$f"
done
echo "worktree ready: $d  (remove with: git -C /repo worktree remove --force $d)"
