#!/usr/bin/env python3
"""tools/try_patch.py <patch.diff> <ID> [<ID>...] [--tier quick|thorough] [--seed N] [--keep]
Apply a patch to a scratch worktree of /repo (never /repo itself) and run the given checks against it.
Prints one line per check: ID exit-code first VIOLATION/INCONCLUSIVE lines."""
import hashlib, os, subprocess, sys
args = sys.argv[1:]
tier, seed, keep = 'quick', '0', False
if '--tier' in args:
    i = args.index('--tier'); tier = args[i + 1]; del args[i:i + 2]
if '--seed' in args:
    i = args.index('--seed'); seed = args[i + 1]; del args[i:i + 2]
if '--keep' in args:
    args.remove('--keep'); keep = True
patch, ids = os.path.abspath(args[0]), args[1:]
V = os.path.dirname(os.path.dirname(os.path.abspath(__file__)))
wt = '/tmp/try_' + hashlib.sha1((patch + str(os.getpid())).encode()).hexdigest()[:10]
subprocess.run([os.path.join(V, 'tools', 'mkworktree.sh'), wt], check=True, stdout=subprocess.DEVNULL, stderr=subprocess.DEVNULL)
rc_all = 0
try:
    subprocess.run(['git', '-C', wt, 'apply', patch], check=True)
    for pid in ids:
        env = dict(os.environ, PV_REPO=wt, VERIF_SEED=seed)
        p = subprocess.run([os.path.join(V, 'check'), pid, '--tier', tier], cwd=V, env=env, capture_output=True, text=True)
        lines = [l for l in p.stdout.splitlines() if l.startswith(('VIOLATION', 'INCONCLUSIVE', '   what='))]
        print(f'{pid}: exit={p.returncode}', '|', ' || '.join(lines[:4])[:600])
        if p.returncode not in (0, 1, 2):
            print(p.stderr[-1500:])
finally:
    if not keep:
        subprocess.run(['git', '-C', '/repo', 'worktree', 'remove', '--force', wt], stdout=subprocess.DEVNULL, stderr=subprocess.DEVNULL)
    else:
        print('kept', wt)
