#!/usr/bin/env python3
"""Regenerate /verif/MANIFEST.json from the table below (keeps it schema-valid)."""
import json, os
V = os.path.dirname(os.path.dirname(os.path.abspath(__file__)))
props = [json.loads(l) for l in open(os.path.join(V, 'properties.jsonl'))]
from checks_table import CHECKS, NOT_APPLICABLE  # noqa: E402
checks = []
for p in props:
    pid = p['id']
    if pid not in CHECKS:
        continue
    c = CHECKS[pid]
    checks.append({
        'property_id': pid,
        'quick_cmd': f'./check {pid} --tier quick',
        'thorough_cmd': f'./check {pid} --tier thorough',
        'evidence_file': f'evidence/{pid}.json',
        'replay_cmd_template': f'./check {pid} --replay {{path}}',
        'engine': 'pv',
        'level_claimed': {'category': 'exploration', 'text': c['text'], 'design_ref': f'DESIGN.md section 4 {pid}'},
        'level_note': c['note'],
        'technique': c['technique'],
    })
na = [{'property_id': p['id'], 'reason': NOT_APPLICABLE.get(p['id'], 'check not built yet in this phase (planned, see DESIGN.md section 4)')}
      for p in props if p['id'] not in CHECKS]
man = {
    'version': 1,
    'setup_cmd': './setup.sh',
    'hooks': {
        'guard': 'PHOTUTILS_VERIF',
        'enable': 'no source hooks: all monitors are attached from /verif by monkeypatching (PYTHONPATH=/verif), the checks import photutils from /repo working tree (editable install) in fresh interpreters',
        'baseline_off_cmd': 'cd /repo && /venv/bin/python -m pytest -q -p no:cacheprovider --timeout=900 --continue-on-collection-errors -n 8',
        'source_commits': [],
        'add_only': True,
    },
    'engines': [{'name': 'pv', 'path': 'pv/', 'serves_properties': sorted(CHECKS),
                 'kind_free_text': 'runtime monitors (reference-model, relation, history/fresh-object, write-sentinel, schedule control) over generated hostile workloads; offline aggregation of recorded event logs'}],
    'checks': checks,
    'notes': 'Every check is runtime monitoring of the real code in /repo (see DESIGN.md). Exit 0 held / 1 violation / 2 inconclusive.',
    'not_applicable': na,
}
json.dump(man, open(os.path.join(V, 'MANIFEST.json'), 'w'), indent=1)
print('wrote MANIFEST.json with', len(checks), 'checks;', len(na), 'not claimed')
