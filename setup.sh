#!/bin/bash
# Offline setup: runtime-contract library next to the repository's interpreter.
cd "$(dirname "$0")"
mkdir -p .deps .build evidence
if [ ! -d .deps/icontract ]; then
  PIP_NO_INDEX=1 /venv/bin/python -m pip install -q --no-index --find-links /opt/veriftools/wheels --target .deps icontract || echo "icontract not installed (contracts leg will be inconclusive)"
fi
/venv/bin/python -c "import photutils; print('photutils', photutils.__version__, photutils.__file__)"
